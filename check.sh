#!/bin/bash
# check.sh <property> [quick|thorough]  — rebuilds the simulator against /repo's current working tree and runs
# the check of one property. Exit 0: held on everything explored; 1: VIOLATION line printed; 2: build/harness trouble.
prop="$1"; tier="${2:-${VERIF_TIER:-quick}}"
if [ "$prop" = "replay" ]; then
  shift
  cd /verif/sim || exit 2
  export GOFLAGS=-mod=mod GOPROXY=off GOSUMDB=off GOTOOLCHAIN=local GOWORK=off
  /verif/build.sh >&2 || exit 2
  exec /verif/bin/archesim replay "$@"
fi
seed="${VERIF_SEED:-1}"
/verif/build.sh "$prop" >&2 || { echo "build failed" >&2; exit 2; }
evdir="${VERIF_EVIDENCE_DIR:-/verif/evidence}"; mkdir -p "$evdir" /verif/replays
level=exploration
case "$prop" in C09|C10) level=fault_enumeration;; esac
bins=/verif/bin/archesim
case "$prop" in C01|C09|C16) bins=/verif/bin/archesim,/verif/bin/archesim,/verif/bin/archesim,/verif/bin/archesim_tiny;; esac
case "$prop" in C14) bins=/verif/bin/archesim_126,/verif/bin/archesim_126,/verif/bin/archesim_plain,/verif/bin/archesim;; esac
case "$prop" in
  C13|C18|C19) exec /verif/bin/archesim special "$prop" -tier "$tier" -seed "$seed" -evidence "$evdir/$prop.json";;
esac
if [ "$prop" = "C14" ]; then
  /verif/bin/archesim run -prop "$prop" -tier "$tier" -seed "$seed" -bins "$bins" -level "$level" \
    -evidence "$evdir/$prop.json" -known /verif/known_findings.json -out /verif/replays; rc=$?
  secs=6; [ "$tier" = thorough ] && secs=60
  /verif/bin/archesim special C14 -seed "$seed" -seconds $secs -procs 4 -evidence "$evdir/$prop.json"; rc2=$?
  [ $rc = 1 ] || [ $rc2 = 1 ] && exit 1
  [ $rc = 0 ] && [ $rc2 = 0 ] && exit 0
  exit 2
fi
exec /verif/bin/archesim run -prop "$prop" -tier "$tier" -seed "$seed" -bins "$bins" -level "$level" \
  -evidence "$evdir/$prop.json" -known /verif/known_findings.json -out /verif/replays
