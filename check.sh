#!/bin/bash
# check.sh <property> [quick|thorough]  — rebuilds the simulator against /repo's current working tree and runs
# the check of one property. Exit 0: held on everything explored; 1: VIOLATION line printed; 2: build/harness trouble.
# check.sh replay <file> replays a recorded trace.
root="$(cd "$(dirname "$0")" && pwd)"
prop="$1"; tier="${2:-${VERIF_TIER:-quick}}"
bin="$root/bin"
if [ "$prop" = "replay" ]; then
  shift
  "$root/build.sh" all >&2 || exit 2
  exec "$bin/archesim" replay "$@"
fi
seed="${VERIF_SEED:-1}"
"$root/build.sh" "$prop" >&2 || { echo "build failed" >&2; exit 2; }
evdir="${VERIF_EVIDENCE_DIR:-$root/evidence}"; mkdir -p "$evdir" "$root/replays"
level=exploration
case "$prop" in C09|C10) level=fault_enumeration;; esac
bins="$bin/archesim"
case "$prop" in C01|C09|C16) bins="$bin/archesim,$bin/archesim,$bin/archesim,$bin/archesim_tiny";; esac
# the filter-heavy profiles give one worker in eight to the 64-bit mask build as well
case "$prop" in C03|C05|C06|C07|C08|C11) bins="$bin/archesim,$bin/archesim,$bin/archesim,$bin/archesim,$bin/archesim,$bin/archesim,$bin/archesim,$bin/archesim_tiny";; esac
case "$prop" in C14) bins="$bin/archesim_126,$bin/archesim_126,$bin/archesim_plain,$bin/archesim";; esac
common=(-tier "$tier" -seed "$seed" -evidence "$evdir/$prop.json" -out "$root/replays")
case "$prop" in
  C13|C18) exec "$bin/archesim" special "$prop" "${common[@]}";;
  C19) exec "$bin/archesim" special "$prop" "${common[@]}" -racebin "$bin/archesim_race";;
esac
if [ "$prop" = "C14" ]; then
  "$bin/archesim" run -prop "$prop" "${common[@]}" -bins "$bins" -level "$level" -known "$root/known_findings.json"; rc=$?
  secs=6; [ "$tier" = thorough ] && secs=60
  "$bin/archesim" special C14 -seed "$seed" -seconds $secs -procs 4 -evidence "$evdir/$prop.json" -bin "$bin/gcstress" -out "$root/replays"; rc2=$?
  if [ $rc = 1 ] || [ $rc2 = 1 ]; then exit 1; fi
  if [ $rc = 0 ] && [ $rc2 = 0 ]; then exit 0; fi
  exit 2
fi
if [ "$prop" = "C09" ]; then
  "$bin/archesim" run -prop "$prop" "${common[@]}" -bins "$bins" -level "$level" -known "$root/known_findings.json"; rc=$?
  # generic structural entry points on a locked world (MapN / Map / Exchange, all arities), merged into the same evidence
  "$bin/archesim" special C18 -prop C09 "${common[@]}"; rc2=$?
  if [ $rc = 1 ] || [ $rc2 = 1 ]; then exit 1; fi
  if [ $rc = 0 ] && [ $rc2 = 0 ]; then exit 0; fi
  exit 2
fi
exec "$bin/archesim" run -prop "$prop" "${common[@]}" -bins "$bins" -level "$level" -known "$root/known_findings.json"
