#!/bin/bash
# Rebuilds the simulator binaries from /verif/sim against /repo's current working tree (build tag verif).
set -e
export GOFLAGS=-mod=mod GOPROXY=off GOSUMDB=off GOTOOLCHAIN=local GOWORK=off
cd /verif/sim
cp /repo/go.sum go.sum 2>/dev/null || true
mkdir -p /verif/bin
go build -tags verif -o /verif/bin/archesim ./cmd/archesim
case "$1" in
  ""|all|C01|C09|C16) go build -tags "verif tiny" -o /verif/bin/archesim_tiny ./cmd/archesim;;
esac
