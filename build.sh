#!/bin/bash
# Rebuilds the simulator binaries from <root>/sim against /repo's current working tree (build tag verif).
set -e
root="$(cd "$(dirname "$0")" && pwd)"
export GOFLAGS=-mod=mod GOPROXY=off GOSUMDB=off GOTOOLCHAIN=local GOWORK=off
cd "$root/sim"
cp /repo/go.sum go.sum 2>/dev/null || true
mkdir -p "$root/bin"
go build -tags verif -o "$root/bin/archesim" ./cmd/archesim
case "$1" in
  ""|all|C01|C09|C16|C03|C05|C06|C07|C08|C11) go build -tags "verif tiny" -o "$root/bin/archesim_tiny" ./cmd/archesim;;
esac
case "$1" in
  ""|all|C19) go build -race -tags verif -o "$root/bin/archesim_race" ./cmd/archesim;;
esac
case "$1" in
  ""|all|C14)
    # newer toolchain: weak pointers give a synchronous liveness oracle for the release half of C14
    GOTOOLCHAIN=local go1.26.8 build -tags verif -o "$root/bin/archesim_126" ./cmd/archesim
    # without the verif tag: the library exactly as users build it (hook calls could perturb inlining / escape analysis)
    go build -o "$root/bin/archesim_plain" ./cmd/archesim
    go build -o "$root/bin/gcstress" ./cmd/gcstress
    # the compiler's escape verdict for the call-site shapes, recorded as evidence
    go build -tags verif -gcflags=-m . 2>&1 | grep 'shapes.go' | grep -v 'inline' > "$root/bin/escape_report.txt" || true;;
esac
