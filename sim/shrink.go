package sim

import (
	"encoding/json"
	"sort"
	"strings"
	"time"
)

// Signature is what minimisation preserves: the violation class plus the further classes it establishes.
func (v *Violation) Signature() string {
	also := append([]string{}, v.Also...)
	for _, f := range v.Facts {
		if strings.HasPrefix(f, "underlying:") {
			also = append(also, f) // the kind of mismatch behind a state-after-... class is part of what must be kept
		}
	}
	sort.Strings(also)
	return v.Class + "|" + strings.Join(uniq(also), ",")
}

func cloneTrace(tr *Trace) *Trace {
	b, _ := json.Marshal(tr)
	var out Trace
	_ = json.Unmarshal(b, &out)
	out.Violation = nil
	out.Concrete = nil
	return &out
}

// RunTrace executes a trace on a fresh engine.
func RunTrace(tr *Trace, keepConcrete bool) (*Violation, *Engine) {
	e := NewEngine(tr.Plan)
	e.keepConcrete = keepConcrete
	if v := e.setupShadows(); v != nil {
		return v, e
	}
	v := e.Run(tr)
	return v, e
}

// Shrink minimises a failing trace: drop steps (ddmin), simplify the plan, zero the raw choice values,
// keeping only candidates that still fail with the same violation class.
func Shrink(tr *Trace, sig string, maxRuns int, deadline time.Time, keep func(*Trace, *Violation) bool) *Trace {
	runs := 0
	fails := func(c *Trace) bool {
		if runs >= maxRuns || time.Now().After(deadline) {
			return false
		}
		runs++
		v, _ := RunTrace(c, false)
		if v == nil || v.Signature() != sig {
			return false
		}
		// an attribution that rests on differential re-execution must survive the minimisation too
		return keep == nil || keep(c, v)
	}
	cur := cloneTrace(tr)
	// 1. cut after the failing step
	if v, _ := RunTrace(cur, false); v != nil && v.Step+1 < len(cur.Steps) {
		c := cloneTrace(cur)
		c.Steps = c.Steps[:v.Step+1]
		if fails(c) {
			cur = c
		}
	}
	// 2. ddmin over steps
	for chunk := len(cur.Steps) / 2; chunk >= 1; chunk /= 2 {
		for i := 0; i+chunk <= len(cur.Steps); {
			c := cloneTrace(cur)
			c.Steps = append(append([]Step{}, cur.Steps[:i]...), cur.Steps[i+chunk:]...)
			if fails(c) {
				cur = c
			} else {
				i += chunk
			}
		}
	}
	// 3. simplify the plan
	try := func(mod func(p *Plan)) {
		c := cloneTrace(cur)
		mod(c.Plan)
		if fails(c) {
			cur = c
		}
	}
	try(func(p *Plan) { p.Listener = "none" })
	try(func(p *Plan) { p.IllegalPermille = 0 })
	try(func(p *Plan) { p.DeadPermille = 0 })
	try(func(p *Plan) { p.CachedPermille = 0 })
	try(func(p *Plan) { p.ListenerChaos = false })
	try(func(p *Plan) { p.FreshTwin = false })
	try(func(p *Plan) { p.LoadTwin = false })
	try(func(p *Plan) { p.Wide = "" })
	try(func(p *Plan) { p.FullEvery = 1 })
	try(func(p *Plan) { p.ResTypes = 1 })
	try(func(p *Plan) {
		for i := range p.Types {
			p.Types[i].Fillers = 0
		}
	})
	try(func(p *Plan) {
		for i := range p.Types {
			p.Types[i].Late = false
		}
	})
	for i := range cur.Plan.Types {
		idx := i
		try(func(p *Plan) {
			if k := p.Types[idx].Kind; k != "rel" && k != "ptr" && k != "ptrrel" && k != "array" && k != "relptr" && k != "relnamed" {
				p.Types[idx].Kind, p.Types[idx].Size, p.Types[idx].Align = "bytes", 1, 0
			}
		})
	}
	try(func(p *Plan) { p.CapInc = 128; p.RelCapInc = 0 })
	// 4. single steps again, then zero raw values
	for i := 0; i < len(cur.Steps); {
		c := cloneTrace(cur)
		c.Steps = append(append([]Step{}, cur.Steps[:i]...), cur.Steps[i+1:]...)
		if fails(c) {
			cur = c
		} else {
			i++
		}
	}
	for i := range cur.Steps {
		c := cloneTrace(cur)
		for j := range c.Steps[i].A {
			c.Steps[i].A[j] = 0
		}
		c.Steps[i].GC = 0
		if fails(c) {
			cur = c
			continue
		}
		for j := range cur.Steps[i].A {
			if cur.Steps[i].A[j] == 0 {
				continue
			}
			c := cloneTrace(cur)
			c.Steps[i].A[j] = 0
			if fails(c) {
				cur = c
			}
		}
	}
	return cur
}

// CloneTrace returns a deep copy of a trace.
func CloneTrace(tr *Trace) *Trace { return cloneTrace(tr) }
