package sim

import (
	"fmt"
	"strings"
)

// RunDigest identifies the execution: concrete op sequence, outcomes, issued handles, final hidden shape.
func (e *Engine) RunDigest() uint64 {
	d := *e.log
	d.U64(worldShape(e.S.W))
	return d.Sum()
}

var relevance = map[string][]string{
	"C01": {"value-written"},
	"C02": {"recycled-handle-issued"},
	"C03": {"query-nonempty"},
	"C05": {"target-assigned"},
	"C06": {"target-death"},
	"C07": {"cached-compared"},
	"C08": {"batch-nonempty"},
	"C09": {"locked-call"},
	"C10": {"illegal-arg"},
	"C11": {"events-compared"},
	"C12": {"subscription-events-compared"},
	"C14": {"gc-boundary", "gc-midop"},
	"C15": {"fresh-twin-built"},
	"C16": {"late-registration"},
	"C17": {"restart"},
	"C20": {"resource-op"},
}

// Relevant: did the fault / oracle kind the property depends on actually fire in this run?
func Relevant(prop string, st *Stats) bool {
	if st.LegalStruct < 3 {
		return false
	}
	keys, ok := relevance[prop]
	if !ok {
		return true
	}
	for _, k := range keys {
		if st.Probes[k]+st.Faults[k] > 0 {
			return true
		}
	}
	return false
}

func RelevanceRule(prop string) string {
	keys, ok := relevance[prop]
	if !ok {
		return ">=3 legal structural steps"
	}
	return ">=3 legal structural steps and one of " + strings.Join(keys, ", ") + " > 0"
}

var expectedProbes = map[string][]string{
	"C01": {"value-written", "query-write", "batch-nonempty", "type-on-id>=240"},
	"C02": {"recycled-handle-issued", "batch-created", "reset"},
	"C03": {"query-nonempty", "step-used", "entityat-used", "release:exhaust", "closed-midway"},
	"C05": {"target-assigned", "recycled-id-offered", "self-target", "setrel-same-target", "illegal:dead-target"},
	"C06": {"target-death", "target-death-nonempty", "self-target-removed", "parent-and-others-in-one-batch"},
	"C07": {"cached-compared", "registered-after-entities", "batch-through-registered", "unregistered", "reset"},
	"C08": {"batch-nonempty", "batch-multi-source", "batch-created"},
	"C09": {"locked-call", "lock-exhaustion", "release:exhaust", "release:Close", "closed-before-first-next", "max-lock-depth"},
	"C10": {"illegal-arg", "illegal:dead-entity", "illegal:add-present", "illegal:remove-absent", "illegal:dup-add", "illegal:dup-rem",
		"illegal:add-and-remove-same", "illegal:second-relation", "illegal:dead-target", "illegal:relation-missing", "illegal:not-a-relation",
		"illegal:bad-count", "illegal:bad-index", "illegal:bad-step", "illegal:resource-present", "illegal:resource-absent",
		"illegal:double-register", "illegal:double-unregister", "illegal:assign-empty", "illegal:target-without-relation",
		"illegal:exchange-no-effect-with-relation", "illegal:set-absent"},
	"C11": {"events-compared", "batch-nonempty"},
	"C12": {"subscription-events-compared", "subscription-filtered-out", "dispatch-member-added-late"},
	"C15": {"fresh-twin-built", "reset"},
	"C16": {"late-registration", "type-on-layout-chunk-border"},
	"C17": {"restart", "load-twin-handles-compared", "load-refused", "load-into-reset-world"},
	"C20": {"resource-op", "illegal:resource-present", "illegal:resource-absent"},
}

func ExpectedProbes(prop string) []string { return expectedProbes[prop] }

// FactsOf extracts the facts of a (minimised) failing trace that a known-finding signature may refer to.
func FactsOf(tr *Trace, v *Violation) []string {
	facts := []string{"class:" + v.Class}
	facts = append(facts, v.Facts...)
	if v.Op != nil {
		facts = append(facts, "op:"+v.Op.Kind, "variant:"+v.Op.Variant)
		if v.Op.Illegal != "" {
			facts = append(facts, "illegal:"+v.Op.Illegal)
		}
		if v.Op.Cached {
			facts = append(facts, "filter-registered")
		}
		if v.Op.Q {
			facts = append(facts, "q-variant")
		}
		if v.Op.HasTgt && v.Op.Target == v.Op.Ent && !v.Op.Ent.IsZero() {
			facts = append(facts, "targets-itself")
		}
	}
	if tr.Plan != nil {
		if tr.Plan.Listener != "none" && tr.Plan.Listener != "" {
			facts = append(facts, "listener-installed")
		}
		if len(tr.Plan.Types) > 0 && tr.Plan.Types[0].IsRelation() && tr.Plan.Types[0].Fillers == 0 {
			facts = append(facts, "relation-type-has-id-0")
		}
	}
	for _, s := range tr.Steps {
		facts = append(facts, "has-step:"+s.Op)
	}
	facts = append(facts, fmt.Sprintf("steps:%d", len(tr.Steps)))
	return uniq(facts)
}
