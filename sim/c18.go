package sim

import (
	"fmt"
	"reflect"
	"sort"
	"unsafe"

	"github.com/mlange-42/arche/ecs"
	"github.com/mlange-42/arche/ecs/event"
	"github.com/mlange-42/arche/generic"
)

// ---------------------------------------------------------------------------------------------------------
// C18: the generic API as a typed view of the ID-based core. World G is driven through MapN / FilterN / QueryN /
// Map / Exchange / Resource; its lock-step twin K through the ID-based calls each method documents as its
// equivalent. After every step both worlds must agree (handles, counts, panics, components, values, targets,
// events); pointers returned by generic Get must be the ones World.Get returns, position by position.
// ---------------------------------------------------------------------------------------------------------

// Static component types: every one holds a single uint64 at offset 0, so values can be read and written untyped.
type G0 struct{ V uint64 }
type G1 struct{ V uint64 }
type G2 struct{ V uint64 }
type G3 struct{ V uint64 }
type G4 struct{ V uint64 }
type G5 struct{ V uint64 }
type G6 struct{ V uint64 }
type G7 struct{ V uint64 }
type G8 struct{ V uint64 }
type G9 struct{ V uint64 }
type G10 struct{ V uint64 }
type G11 struct{ V uint64 }
type GRelA struct {
	ecs.Relation
	V uint64
}
type GRelB struct {
	ecs.Relation
	V uint64
}

var c18Types = []reflect.Type{
	reflect.TypeOf(G0{}), reflect.TypeOf(G1{}), reflect.TypeOf(G2{}), reflect.TypeOf(G3{}), reflect.TypeOf(G4{}), reflect.TypeOf(G5{}),
	reflect.TypeOf(G6{}), reflect.TypeOf(G7{}), reflect.TypeOf(G8{}), reflect.TypeOf(G9{}), reflect.TypeOf(G10{}), reflect.TypeOf(G11{}),
	reflect.TypeOf(GRelA{}), reflect.TypeOf(GRelB{}),
}

const (
	c18RelA = 12
	c18RelB = 13
)

type qres struct {
	ents   []ecs.Entity
	ptrs   [][]unsafe.Pointer
	rel    []ecs.Entity
	hasRel bool
	count  int
}

type mapDriver interface {
	N() int
	Types() []reflect.Type
	RelType() reflect.Type
	Init(w *ecs.World)
	Get(e ecs.Entity) []unsafe.Pointer
	GetUnchecked(e ecs.Entity) []unsafe.Pointer
	New(t []ecs.Entity) ecs.Entity
	NewBatch(count int, t []ecs.Entity)
	NewBatchQ(count int, t []ecs.Entity) qres
	NewWith(vals []uint64, t []ecs.Entity) ecs.Entity
	Add(e ecs.Entity, t []ecs.Entity)
	AddBatch(f ecs.Filter, t []ecs.Entity) int
	AddBatchQ(f ecs.Filter, t []ecs.Entity) qres
	Assign(e ecs.Entity, vals []uint64)
	Remove(e ecs.Entity, t []ecs.Entity)
	RemoveBatch(f ecs.Filter, t []ecs.Entity) int
	RemoveBatchQ(f ecs.Filter, t []ecs.Entity) qres
	RemoveEntities(exclusive bool) int
	NewFilter() filterDriver
}

type filterDriver interface {
	With(c ...generic.Comp)
	Without(c ...generic.Comp)
	Optional(c ...generic.Comp)
	Exclusive()
	WithRelation(c generic.Comp, t []ecs.Entity)
	Register(w *ecs.World)
	Unregister(w *ecs.World)
	Filter(w *ecs.World, t []ecs.Entity) ecs.Filter
	Query(w *ecs.World, t []ecs.Entity, withRel bool) qres
	// QuerySplit iterates like Query but calls between() after the k-th entity, with the query still open
	QuerySplit(w *ecs.World, t []ecs.Entity, withRel bool, k int, between func()) qres
}

func collect0(q *generic.Query0, hasRel bool) qres {
	r := qres{count: q.Count(), hasRel: false}
	for q.Next() {
		r.ents = append(r.ents, q.Entity())
	}
	return r
}

// C18Trace is the recorded form of one generic-vs-core run.
type C18Trace struct {
	Property  string     `json:"property"`
	Build     string     `json:"build"`
	Seed      uint64     `json:"seed"`
	N         int        `json:"n"`
	Perm      int        `json:"perm"`
	CapInc    int        `json:"capInc"`
	RegOrder  []int      `json:"regOrder"`
	Steps     []Step     `json:"steps"`
	Violation *Violation `json:"violation,omitempty"`
	Concrete  []string   `json:"concrete,omitempty"`
}

var c18Ops = []string{"new", "newwith", "newbatch", "newbatchq", "add", "assign", "remove", "addbatch", "addbatchq", "rembatch", "rembatchq",
	"rmentities", "get", "bg-new", "bg-xchg", "bg-rm", "bg-setrel", "map1", "exchange", "filter", "resource", "lockedop", "bg-reg"}
var c18Weights = []int{10, 6, 4, 4, 10, 6, 8, 4, 4, 4, 3, 2, 10, 10, 8, 5, 5, 8, 8, 14, 3, 6, 3}

// c18LockedWeights: the profile used by the C09 check (generic structural entry points on a locked world).
var c18LockedWeights = []int{6, 3, 2, 2, 6, 3, 4, 2, 2, 2, 2, 1, 3, 10, 6, 3, 3, 3, 4, 2, 1, 40, 1}

func GenC18Trace(seed uint64, thorough bool) *C18Trace { return genC18Trace(seed, thorough, false) }

func genC18Trace(seed uint64, thorough, lockedProfile bool) *C18Trace {
	r := NewRng(seed, StreamPlan)
	tr := &C18Trace{Property: "C18", Build: "special-C18", Seed: seed}
	if lockedProfile {
		tr.Property = "C09"
	}
	tr.N = 1 + r.Intn(12)
	tr.Perm = r.Intn(3)
	tr.CapInc = []int{1, 2, 3, 8, 128}[r.Intn(5)]
	perm := make([]int, len(c18Types))
	for i := range perm {
		perm[i] = i
	}
	for i := len(perm) - 1; i > 0; i-- {
		j := r.Intn(i + 1)
		perm[i], perm[j] = perm[j], perm[i]
	}
	tr.RegOrder = perm
	n := 30 + r.Intn(60)
	if thorough && r.Intn(3) == 0 {
		n = 100 + r.Intn(200)
	}
	sched := NewRng(seed, StreamSched)
	ops := NewRng(seed, StreamOps)
	for i := 0; i < n; i++ {
		wts := c18Weights
		if lockedProfile {
			wts = c18LockedWeights
		}
		st := Step{Op: c18Ops[sched.Pick(wts)], A: make([]uint32, 48)}
		for j := range st.A {
			st.A[j] = ops.U32()
		}
		tr.Steps = append(tr.Steps, st)
	}
	return tr
}

type c18Ev struct {
	Ent            ecs.Entity
	Added, Removed uint32 // sets of c18Types indices
	OldRel, NewRel int    // c18Types index, -1 = none
	OldTarget      ecs.Entity
	Types          uint8
}

type c18World struct {
	w   ecs.World
	ids []ecs.ID // by c18Types index
	reg []bool   // registered in this world
	evs []c18Ev
}

func (cw *c18World) typeOfID(id ecs.ID) int {
	for t, ok := range cw.reg {
		if ok && cw.ids[t] == id {
			return t
		}
	}
	return -2
}

func (cw *c18World) setOfMask(m *ecs.Mask) uint32 {
	var s uint32
	n := m.TotalBitsSet()
	for t, ok := range cw.reg {
		if ok && m.Get(cw.ids[t]) {
			s |= 1 << uint(t)
			n--
		}
	}
	if n != 0 {
		s |= 1 << 31 // an ID that is not one of the known types
	}
	return s
}

type c18Listener struct{ cw *c18World }

func (l *c18Listener) Subscriptions() event.Subscription { return event.All }
func (l *c18Listener) Components() *ecs.Mask             { return nil }
func (l *c18Listener) Notify(w *ecs.World, e ecs.EntityEvent) {
	ev := c18Ev{Ent: e.Entity, Added: l.cw.setOfMask(&e.Added), Removed: l.cw.setOfMask(&e.Removed), OldRel: -1, NewRel: -1, OldTarget: e.OldTarget, Types: uint8(e.EventTypes)}
	if e.OldRelation != nil {
		ev.OldRel = l.cw.typeOfID(*e.OldRelation)
	}
	if e.NewRelation != nil {
		ev.NewRel = l.cw.typeOfID(*e.NewRelation)
	}
	l.cw.evs = append(l.cw.evs, ev)
}

func newC18World(tr *C18Trace, late map[int]bool) *c18World {
	cw := &c18World{w: ecs.NewWorld(ecs.NewConfig().WithCapacityIncrement(tr.CapInc)), ids: make([]ecs.ID, len(c18Types)), reg: make([]bool, len(c18Types))}
	for _, t := range tr.RegOrder {
		if late[t] {
			continue // registered later, by whichever call needs it first
		}
		cw.ids[t] = ecs.TypeID(&cw.w, c18Types[t])
		cw.reg[t] = true
	}
	cw.w.SetListener(&c18Listener{cw})
	return cw
}

type c18Run struct {
	tr        *C18Trace
	G, K      *c18World
	drv       mapDriver
	mapT      []int // c18Types index per position
	relT      int   // c18Types index of the map's relation, -1
	valSeq    uint64
	step      int
	Concrete  []string
	stats     map[string]int
	dead      []ecs.Entity
	locked    bool
	resMapper *generic.Resource[C18Res]
	filt      *c18Filt
	// H: another world, with the same component types registered in the opposite order and a fixed population. A
	// generic filter object is not bound to a world: after a builder call it compiles against the world it is given.
	H    *ecs.World
	hids []ecs.ID
}

// otherWorld builds H (lazily).
func (r *c18Run) otherWorld() {
	if r.H != nil {
		return
	}
	w := ecs.NewWorld(ecs.NewConfig().WithCapacityIncrement(4))
	r.H = &w
	r.hids = make([]ecs.ID, len(c18Types))
	for t := len(c18Types) - 1; t >= 0; t-- {
		r.hids[t] = ecs.TypeID(r.H, c18Types[t])
	}
	for i := 0; i < 40; i++ {
		var ids []ecs.ID
		for t := 0; t < 12; t++ {
			if (i*7+t*5+i*t)%3 == 0 {
				ids = append(ids, r.hids[t])
			}
		}
		r.H.NewEntity(ids...)
	}
	for t := 0; t < 12; t++ { // and one entity per single type, so that small filters select something
		r.H.NewEntity(r.hids[t])
	}
	all := make([]ecs.ID, 12)
	copy(all, r.hids[:12])
	r.H.NewEntity(all...)
}

func typeIndex(t reflect.Type) int {
	for i, x := range c18Types {
		if x == t {
			return i
		}
	}
	return -1
}

func (r *c18Run) viol(format string, args ...interface{}) *Violation {
	return &Violation{Class: "generic-diff", Step: r.step, Msg: fmt.Sprintf(format, args...), World: "generic"}
}

// both runs f on G and g on K, recovering panics, and requires the same panic / no-panic outcome.
func (r *c18Run) both(name string, f, g func()) (*Violation, bool) {
	run := func(h func()) (msg string, p bool) {
		defer func() {
			if x := recover(); x != nil {
				msg, p = fmt.Sprint(x), true
			}
		}()
		h()
		return
	}
	m1, p1 := run(f)
	m2, p2 := run(g)
	r.Concrete = append(r.Concrete, fmt.Sprintf("%s (panic generic=%v core=%v)", name, p1, p2))
	if p1 != p2 {
		return r.viol("%s: generic call panicked=%v (%s), ID-based equivalent panicked=%v (%s)", name, p1, m1, p2, m2), p1
	}
	if p1 {
		r.stats["both-panicked"]++
	}
	return nil, p1
}

func (r *c18Run) alive() []ecs.Entity {
	q := r.K.w.Query(ecs.All())
	var l []ecs.Entity
	for q.Next() {
		l = append(l, q.Entity())
	}
	sort.Slice(l, func(i, j int) bool { return l[i].ID() < l[j].ID() })
	return l
}

func (r *c18Run) pick(c *cursor) (ecs.Entity, bool) {
	l := r.alive()
	k := c.n(1 << 30)
	if len(l) == 0 {
		return ecs.Entity{}, false
	}
	return l[k%len(l)], true
}

// maybeDead replaces e by a removed (possibly recycled) handle now and then: the generic call and its ID-based
// equivalent must refuse it alike. Only used where every use of the entity happens inside both().
func (r *c18Run) maybeDead(c *cursor, e ecs.Entity) ecs.Entity {
	k := c.n(1 << 20)
	if k%16 == 0 && len(r.dead) > 0 {
		r.stats["dead-entity-offered"]++
		return r.dead[k%len(r.dead)]
	}
	return e
}

// pickWhere prefers an entity for which pred holds in K.
func (r *c18Run) pickWhere(c *cursor, pred func(e ecs.Entity) bool) (ecs.Entity, bool) {
	l := r.alive()
	k := c.n(1 << 30)
	if len(l) == 0 {
		return ecs.Entity{}, false
	}
	for i := range l {
		e := l[(k+i)%len(l)]
		if pred(e) {
			return e, true
		}
	}
	return l[k%len(l)], true
}

func (r *c18Run) idsOf(cw *c18World, ts []int) []ecs.ID {
	out := make([]ecs.ID, len(ts))
	for i, t := range ts {
		out[i] = cw.ids[t]
	}
	return out
}

func (r *c18Run) vals(n int) []uint64 {
	out := make([]uint64, n)
	for i := range out {
		r.valSeq++
		out[i] = r.valSeq*0x9E3779B97F4A7C15 | 1
	}
	return out
}

func (r *c18Run) kComps(vals []uint64) []ecs.Component {
	out := make([]ecs.Component, len(r.mapT))
	for i, t := range r.mapT {
		v := reflect.New(c18Types[t])
		*(*uint64)(v.UnsafePointer()) = vals[i]
		out[i] = ecs.Component{ID: r.K.ids[t], Comp: v.Interface()}
	}
	return out
}

// target draws an optional relation target for a map that has a relation.
func (r *c18Run) target(c *cursor) []ecs.Entity { return r.targetX(c, false) }

// targetX: with illegalOK, a map WITHOUT a relation is now and then given a target all the same (must be refused like
// a Builder without WithRelation that is given one).
func (r *c18Run) targetX(c *cursor, illegalOK bool) []ecs.Entity {
	k := c.n(100)
	if r.relT < 0 && illegalOK && k >= 94 {
		r.stats["target-for-map-without-relation"]++
		if e, ok := r.pick(c); ok && k%2 == 0 {
			return []ecs.Entity{e}
		}
		return []ecs.Entity{{}}
	}
	if r.relT < 0 || k < 40 {
		c.n(1)
		return nil
	}
	if k < 50 {
		c.n(1)
		return []ecs.Entity{{}}
	}
	e, ok := r.pick(c)
	if !ok {
		return []ecs.Entity{{}}
	}
	return []ecs.Entity{e}
}

// compare checks that G and K are in the same observable state and saw the same events.
func (r *c18Run) compare() *Violation {
	ga, ka := []ecs.Entity{}, r.alive()
	q := r.G.w.Query(ecs.All())
	for q.Next() {
		ga = append(ga, q.Entity())
	}
	sort.Slice(ga, func(i, j int) bool { return ga[i].ID() < ga[j].ID() })
	if len(ga) != len(ka) {
		return r.viol("generic world has %d entities, core twin %d", len(ga), len(ka))
	}
	for i := range ga {
		if ga[i] != ka[i] {
			return r.viol("alive sets differ: generic %v, core %v", ga[i], ka[i])
		}
		e := ga[i]
		for t := range c18Types {
			if !r.registered(t) {
				continue
			}
			gh, kh := r.G.w.Has(e, r.G.ids[t]), r.K.w.Has(e, r.K.ids[t])
			if gh != kh {
				return r.viol("entity %v: component %v present=%v in the generic world, %v in the core twin", e, c18Types[t], gh, kh)
			}
			if gh {
				gv, kv := *(*uint64)(r.G.w.Get(e, r.G.ids[t])), *(*uint64)(r.K.w.Get(e, r.K.ids[t]))
				if gv != kv {
					return r.viol("entity %v: component %v value %x in the generic world, %x in the core twin", e, c18Types[t], gv, kv)
				}
			}
		}
		for _, rt := range []int{c18RelA, c18RelB} {
			if r.K.w.Has(e, r.K.ids[rt]) {
				gt, kt := r.G.w.Relations().Get(e, r.G.ids[rt]), r.K.w.Relations().Get(e, r.K.ids[rt])
				if gt != kt {
					return r.viol("entity %v: target %v in the generic world, %v in the core twin", e, gt, kt)
				}
			}
		}
	}
	if r.G.w.IsLocked() || r.K.w.IsLocked() {
		return r.viol("a world is still locked after the step (generic=%v core=%v)", r.G.w.IsLocked(), r.K.w.IsLocked())
	}
	// events (same IDs in both worlds, so masks compare directly)
	ge, ke := r.G.evs, r.K.evs
	r.G.evs, r.K.evs = nil, nil
	if len(ge) != len(ke) {
		return r.viol("generic world emitted %d events, core twin %d", len(ge), len(ke))
	}
	key := func(e c18Ev) string {
		return fmt.Sprintf("%d.%d +%v -%v %d %d %v %d", e.Ent.ID(), e.Ent.Generation(), listOf(e.Added), listOf(e.Removed), e.OldRel, e.NewRel, e.OldTarget, e.Types)
	}
	gs, ks := make([]string, len(ge)), make([]string, len(ke))
	for i := range ge {
		gs[i], ks[i] = key(ge[i]), key(ke[i])
	}
	sort.Strings(gs)
	sort.Strings(ks)
	for i := range gs {
		if gs[i] != ks[i] {
			return r.viol("events differ: generic %s, core %s", gs[i], ks[i])
		}
	}
	r.stats["events-compared"] += len(gs)
	return nil
}

// checkPtrs: pointers returned positionally by a generic Get must be the ones World.Get returns for the declared type.
func (r *c18Run) checkPtrs(what string, e ecs.Entity, ptrs []unsafe.Pointer, optional map[int]bool) *Violation {
	if len(ptrs) != len(r.mapT) {
		return r.viol("%s returned %d pointers for arity %d", what, len(ptrs), len(r.mapT))
	}
	for i, t := range r.mapT {
		want := r.G.w.Get(e, r.G.ids[t])
		if ptrs[i] != want {
			return r.viol("%s for %v: position %d (%v) is not the pointer World.Get returns for that type (nil=%v, want nil=%v)", what, e, i, c18Types[t], ptrs[i] == nil, want == nil)
		}
		if want == nil && !optional[t] {
			return r.viol("%s for %v: position %d (%v) is nil but not optional", what, e, i, c18Types[t])
		}
	}
	r.stats["positional-pointers-checked"] += len(ptrs)
	return nil
}

func sameEnts(a, b []ecs.Entity) bool {
	if len(a) != len(b) {
		return false
	}
	m := map[ecs.Entity]int{}
	for _, x := range a {
		m[x]++
	}
	for _, x := range b {
		m[x]--
	}
	for _, v := range m {
		if v != 0 {
			return false
		}
	}
	return true
}

// kQuery iterates an ID-based query on K.
func kCollect(q *ecs.Query) (ents []ecs.Entity, count int) {
	count = q.Count()
	for q.Next() {
		ents = append(ents, q.Entity())
	}
	return
}

func (r *c18Run) hasAll(e ecs.Entity) bool {
	for _, t := range r.mapT {
		if !r.K.w.Has(e, r.K.ids[t]) {
			return false
		}
	}
	return true
}

func (r *c18Run) hasNone(e ecs.Entity) bool {
	for _, t := range r.mapT {
		if r.K.w.Has(e, r.K.ids[t]) {
			return false
		}
	}
	if r.relT >= 0 {
		return !r.K.w.Has(e, r.K.ids[c18RelA]) && !r.K.w.Has(e, r.K.ids[c18RelB])
	}
	return true
}

// batchFilter draws a filter (same expression for both worlds) under which the batch op is legal for all matches:
// the map's own mask (for removal) or a mask of other types excluding the map's types (for addition).
func (r *c18Run) batchFilter(c *cursor, forAdd bool) (gf, kf ecs.Filter) {
	if !forAdd {
		return ecs.All(r.idsOf(r.G, r.mapT)...), ecs.All(r.idsOf(r.K, r.mapT)...)
	}
	var other []int
	for t := 0; t < 12; t++ {
		in := false
		for _, m := range r.mapT {
			if m == t {
				in = true
			}
		}
		if !in && r.registered(t) {
			other = append(other, t)
		}
	}
	var inc []int
	if len(other) > 0 && c.n(2) == 0 {
		inc = []int{other[c.n(len(other))]}
	} else {
		c.n(1)
	}
	excl := append([]int{}, r.mapT...)
	if r.relT >= 0 {
		excl = append(excl, c18RelB)
	}
	g := ecs.All(r.idsOf(r.G, inc)...).Without(r.idsOf(r.G, excl)...)
	k := ecs.All(r.idsOf(r.K, inc)...).Without(r.idsOf(r.K, excl)...)
	return &g, &k
}

// syncTypes mirrors, in registration order, every type the generic world has registered by itself into the twin,
// and refreshes the ID tables. Types the twin registered on its own (because the documented equivalent needs the ID)
// are looked up, not compared by number: all comparisons go through type indices.
func (r *c18Run) syncTypes() {
	for _, cw := range []*c18World{r.G, r.K} {
		other := r.K
		if cw == r.K {
			other = r.G
		}
		ids := ecs.ComponentIDs(&cw.w)
		for _, id := range ids {
			info, ok := ecs.ComponentInfo(&cw.w, id)
			if !ok {
				continue
			}
			t := typeIndex(info.Type)
			if t < 0 {
				continue
			}
			if !cw.reg[t] {
				cw.ids[t], cw.reg[t] = id, true
			}
			if !other.reg[t] {
				other.ids[t] = ecs.TypeID(&other.w, c18Types[t])
				other.reg[t] = true
				r.stats["type-registered-late"]++
			}
		}
	}
}

func (r *c18Run) registered(t int) bool { return r.G.reg[t] && r.K.reg[t] }

func RunC18(tr *C18Trace) (*Violation, *c18Run) {
	r := &c18Run{tr: tr, stats: map[string]int{}}
	r.drv = newMapDriver(tr.N, tr.Perm)
	for _, t := range r.drv.Types() {
		r.mapT = append(r.mapT, typeIndex(t))
	}
	// up to two plain types that the mapper does not use are left unregistered at first: a generic filter builder
	// naming them (With / Without) then meets a type the world does not know yet
	late := map[int]bool{}
	if len(tr.RegOrder) > 0 {
		for _, t := range tr.RegOrder {
			if len(late) < 2 && t < 12 && t != 5 && !contains2(r.mapT, t) && (tr.Seed>>uint(t))&1 == 1 {
				late[t] = true
			}
		}
	}
	r.G, r.K = newC18World(tr, late), newC18World(tr, late)
	r.drv.Init(&r.G.w)
	r.syncTypes()
	r.relT = -1
	if rt := r.drv.RelType(); rt != nil {
		r.relT = typeIndex(rt)
	}
	var v *Violation
	func() {
		defer func() {
			if x := recover(); x != nil {
				v = r.viol("harness observation panicked: %v", x)
			}
		}()
		for i := range tr.Steps {
			r.step = i
			if v = r.doStep(&tr.Steps[i]); v != nil {
				return
			}
			r.syncTypes()
			if v = r.compare(); v != nil {
				return
			}
		}
	}()
	return v, r
}

func (r *c18Run) doStep(st *Step) *Violation {
	c := &cursor{a: st.A}
	G, K := &r.G.w, &r.K.w
	kids := r.idsOf(r.K, r.mapT)
	var krel ecs.ID
	if r.relT >= 0 {
		krel = r.K.ids[r.relT]
	}
	r.stats["op:"+st.Op]++
	// the ID-based equivalent of a map with / without a relation: a Builder with / without WithRelation
	kb := func(b *ecs.Builder) *ecs.Builder {
		if r.relT >= 0 {
			return b.WithRelation(krel)
		}
		return b
	}
	switch st.Op {
	case "new":
		t := r.targetX(c, true)
		var ge, ke ecs.Entity
		v, _ := r.both("MapN.New", func() { ge = r.drv.New(t) }, func() {
			if len(t) == 0 {
				ke = K.NewEntity(kids...)
			} else {
				ke = kb(ecs.NewBuilder(K, kids...)).New(t[0])
			}
		})
		if v != nil {
			return v
		}
		if ge != ke {
			return r.viol("MapN.New returned %v, World.NewEntity %v", ge, ke)
		}
	case "newwith":
		t := r.targetX(c, true)
		vals := r.vals(len(r.mapT))
		var ge, ke ecs.Entity
		v, _ := r.both("MapN.NewWith", func() { ge = r.drv.NewWith(vals, t) }, func() {
			if len(t) == 0 {
				ke = K.NewEntityWith(r.kComps(vals)...)
			} else {
				ke = kb(ecs.NewBuilderWith(K, r.kComps(vals)...)).New(t[0])
			}
		})
		if v != nil {
			return v
		}
		if ge != ke {
			return r.viol("MapN.NewWith returned %v, core %v", ge, ke)
		}
	case "newbatch", "newbatchq":
		t := r.targetX(c, true)
		n := 1 + c.n(5)
		if len(r.alive()) > 60 {
			return nil
		}
		var gq qres
		var kents []ecs.Entity
		var kcount int
		isQ := st.Op == "newbatchq"
		v, p := r.both("MapN."+st.Op, func() {
			if isQ {
				gq = r.drv.NewBatchQ(n, t)
			} else {
				r.drv.NewBatch(n, t)
			}
		}, func() {
			b := ecs.NewBuilder(K, kids...)
			if len(t) > 0 {
				b = kb(b)
			}
			if isQ {
				q := b.NewBatchQ(n, t...)
				kents, kcount = kCollect(&q)
			} else {
				b.NewBatch(n, t...)
			}
		})
		if v != nil {
			return v
		}
		if isQ && !p {
			if gq.count != kcount || !sameEnts(gq.ents, kents) {
				return r.viol("MapN.NewBatchQ iterates %d entities (Count %d), Builder.NewBatchQ %d (Count %d)", len(gq.ents), gq.count, len(kents), kcount)
			}
			for i, e := range gq.ents {
				if v := r.checkPtrs("QueryN.Get after NewBatchQ", e, gq.ptrs[i], nil); v != nil {
					return v
				}
				if gq.hasRel && gq.rel[i] != K.Relations().Get(e, krel) {
					return r.viol("QueryN.Relation after NewBatchQ = %v, core %v", gq.rel[i], K.Relations().Get(e, krel))
				}
			}
		}
	case "add", "assign":
		e, ok := r.pickWhere(c, r.hasNone)
		if !ok {
			return nil
		}
		e = r.maybeDead(c, e)
		if st.Op == "assign" {
			vals := r.vals(len(r.mapT))
			v, _ := r.both("MapN.Assign", func() { r.drv.Assign(e, vals) }, func() { K.Assign(e, r.kComps(vals)...) })
			return v
		}
		t := r.targetX(c, true)
		v, _ := r.both("MapN.Add", func() { r.drv.Add(e, t) }, func() {
			if len(t) == 0 {
				K.Add(e, kids...)
			} else if r.relT < 0 {
				ecs.NewBuilder(K, kids...).Add(e, t[0]) // no relation configured: refused before anything happens
			} else {
				K.Relations().Exchange(e, kids, nil, krel, t[0])
			}
		})
		return v
	case "remove":
		e, ok := r.pickWhere(c, r.hasAll)
		if !ok {
			return nil
		}
		e = r.maybeDead(c, e)
		v, _ := r.both("MapN.Remove", func() { r.drv.Remove(e, nil) }, func() { K.Remove(e, kids...) })
		return v
	case "addbatch", "addbatchq":
		gf, kf := r.batchFilter(c, true)
		t := r.target(c)
		isQ := st.Op == "addbatchq"
		var gn, kn int
		var gq qres
		var kents []ecs.Entity
		v, p := r.both("MapN."+st.Op, func() {
			if isQ {
				gq = r.drv.AddBatchQ(gf, t)
			} else {
				gn = r.drv.AddBatch(gf, t)
			}
		}, func() {
			switch {
			case isQ && len(t) == 0:
				q := K.Batch().AddQ(kf, kids...)
				kents, kn = kCollect(&q)
			case isQ:
				q := K.Relations().ExchangeBatchQ(kf, kids, nil, krel, t[0])
				kents, kn = kCollect(&q)
			case len(t) == 0:
				kn = K.Batch().Add(kf, kids...)
			default:
				kn = K.Relations().ExchangeBatch(kf, kids, nil, krel, t[0])
			}
		})
		if v != nil {
			return v
		}
		if p {
			return nil
		}
		if isQ {
			if gq.count != kn || !sameEnts(gq.ents, kents) {
				return r.viol("MapN.AddBatchQ iterates %d entities (Count %d), core %d (Count %d)", len(gq.ents), gq.count, len(kents), kn)
			}
			for i, e := range gq.ents {
				if v := r.checkPtrs("QueryN.Get after AddBatchQ", e, gq.ptrs[i], nil); v != nil {
					return v
				}
			}
		} else if gn != kn {
			return r.viol("MapN.AddBatch returned %d, Batch.Add %d", gn, kn)
		}
		if kn > 0 {
			r.stats["batch-nonempty"]++
		}
	case "rembatch", "rembatchq":
		gf, kf := r.batchFilter(c, false)
		isQ := st.Op == "rembatchq"
		var gn, kn int
		var gq qres
		var kents []ecs.Entity
		v, p := r.both("MapN."+st.Op, func() {
			if isQ {
				gq = r.drv.RemoveBatchQ(gf, nil)
			} else {
				gn = r.drv.RemoveBatch(gf, nil)
			}
		}, func() {
			if isQ {
				q := K.Batch().RemoveQ(kf, kids...)
				kents, kn = kCollect(&q)
			} else {
				kn = K.Batch().Remove(kf, kids...)
			}
		})
		if v != nil || p {
			return v
		}
		if isQ {
			if gq.count != kn || !sameEnts(gq.ents, kents) {
				return r.viol("MapN.RemoveBatchQ iterates %d entities (Count %d), core %d (Count %d)", len(gq.ents), gq.count, len(kents), kn)
			}
		} else if gn != kn {
			return r.viol("MapN.RemoveBatch returned %d, Batch.Remove %d", gn, kn)
		}
	case "rmentities":
		excl := c.n(2) == 0
		var gn, kn int
		v, _ := r.both("MapN.RemoveEntities", func() { gn = r.drv.RemoveEntities(excl) }, func() {
			m := ecs.All(kids...)
			if excl {
				f := m.Exclusive()
				kn = K.Batch().RemoveEntities(&f)
			} else {
				kn = K.Batch().RemoveEntities(m)
			}
		})
		if v != nil {
			return v
		}
		if gn != kn {
			return r.viol("MapN.RemoveEntities(%v) returned %d, Batch.RemoveEntities %d", excl, gn, kn)
		}
	case "get":
		e, ok := r.pickWhere(c, r.hasAll)
		if !ok {
			return nil
		}
		e = r.maybeDead(c, e)
		var ptrs, ptrs2 []unsafe.Pointer
		v, p := r.both("MapN.Get", func() { ptrs = r.drv.Get(e); ptrs2 = r.drv.GetUnchecked(e) }, func() {
			for _, id := range kids {
				K.Get(e, id)
			}
		})
		if v != nil || p {
			return v
		}
		opt := map[int]bool{}
		for t := range c18Types {
			opt[t] = true // MapN.Get on an entity lacking a component returns nil there, like World.Get
		}
		if v := r.checkPtrs("MapN.Get", e, ptrs, opt); v != nil {
			return v
		}
		return r.checkPtrs("MapN.GetUnchecked", e, ptrs2, opt)
	case "bg-new":
		if len(r.alive()) > 60 {
			return nil
		}
		var ts []int
		n := c.n(4)
		for i := 0; i < n; i++ {
			t := c.n(13)
			if !r.registered(t) {
				continue
			}
			dup := false
			for _, x := range ts {
				if x == t {
					dup = true
				}
			}
			if !dup {
				ts = append(ts, t)
			}
		}
		var ge, ke ecs.Entity
		v, _ := r.both("World.NewEntity (background)", func() { ge = G.NewEntity(r.idsOf(r.G, ts)...) }, func() { ke = K.NewEntity(r.idsOf(r.K, ts)...) })
		if v != nil {
			return v
		}
		if ge != ke {
			return r.viol("background creation diverged: %v vs %v", ge, ke)
		}
	case "bg-xchg":
		e, ok := r.pick(c)
		if !ok {
			return nil
		}
		t := c.n(14)
		if !r.registered(t) {
			return nil
		}
		if K.Has(e, r.K.ids[t]) {
			v, _ := r.both("World.Remove (background)", func() { G.Remove(e, r.G.ids[t]) }, func() { K.Remove(e, r.K.ids[t]) })
			return v
		}
		v, _ := r.both("World.Add (background)", func() { G.Add(e, r.G.ids[t]) }, func() { K.Add(e, r.K.ids[t]) })
		return v
	case "bg-rm":
		e, ok := r.pick(c)
		if !ok {
			return nil
		}
		v, p := r.both("World.RemoveEntity (background)", func() { G.RemoveEntity(e) }, func() { K.RemoveEntity(e) })
		if v == nil && !p {
			r.dead = append(r.dead, e)
			if len(r.dead) > 50 {
				r.dead = r.dead[25:]
			}
		}
		return v
	case "bg-setrel":
		e, ok := r.pickWhere(c, func(e ecs.Entity) bool { return K.Has(e, r.K.ids[c18RelA]) })
		if !ok {
			return nil
		}
		tg, _ := r.pick(c)
		v, _ := r.both("Relations.Set (background)", func() { G.Relations().Set(e, r.G.ids[c18RelA], tg) }, func() { K.Relations().Set(e, r.K.ids[c18RelA], tg) })
		return v
	case "bg-reg":
		// a type nobody has named yet is registered directly (not through a filter builder): filter objects compiled
		// before must take it into account when they are used again
		for i := 0; i < 12; i++ {
			t := (c.n(12) + i) % 12
			if r.G.reg[t] || r.K.reg[t] {
				continue
			}
			var gid, kid ecs.ID
			v, p := r.both("TypeID (late type)", func() { gid = ecs.TypeID(G, c18Types[t]) }, func() { kid = ecs.TypeID(K, c18Types[t]) })
			if v != nil || p {
				return v
			}
			r.G.ids[t], r.G.reg[t] = gid, true
			r.K.ids[t], r.K.reg[t] = kid, true
			r.stats["type-registered-late-directly"]++
			break
		}
	case "lockedop":
		return r.opLocked(c)
	case "map1":
		return r.opMap1(c)
	case "exchange":
		return r.opExchange(c)
	case "filter":
		return r.opFilter(c)
	case "resource":
		return r.opResource(c)
	}
	return nil
}

// opLocked: a structural generic call while a query is open in both worlds. The ID-based equivalent is refused by the
// lock, so the generic call has to be refused too, and nothing may change (C09 for the generic entry points).
func (r *c18Run) opLocked(c *cursor) *Violation {
	gq := r.G.w.Query(ecs.All())
	kq := r.K.w.Query(ecs.All())
	r.locked = true
	defer func() {
		r.locked = false
		func() { defer func() { recover() }(); gq.Close() }()
		func() { defer func() { recover() }(); kq.Close() }()
	}()
	ops := []string{"new", "newwith", "newbatch", "newbatchq", "add", "assign", "remove", "addbatch", "addbatchq", "rembatch", "rembatchq", "rmentities", "exchange", "map1"}
	op := ops[c.n(len(ops))]
	sub := Step{Op: op, A: c.a[c.i:]}
	if len(sub.A) < 8 {
		sub.A = c.a
	}
	r.stats["locked:"+op]++
	v := r.doStep(&sub)
	if v != nil {
		v.Msg = "on a locked world: " + v.Msg
		v.Also = append(v.Also, "lock-not-enforced")
		return v
	}
	if !r.G.w.IsLocked() || !r.K.w.IsLocked() {
		v := r.viol("a generic %s call released the world lock held by an open query", op)
		v.Also = append(v.Also, "lock-not-enforced")
		return v
	}
	r.stats["locked-generic-calls"]++
	return nil
}

func containsStr(s, sub string) bool {
	return len(sub) <= len(s) && (func() bool {
		for i := 0; i+len(sub) <= len(s); i++ {
			if s[i:i+len(sub)] == sub {
				return true
			}
		}
		return false
	})()
}

// opMap1: generic.Map[T] for a plain type and for the relation type.
func (r *c18Run) opMap1(c *cursor) *Violation {
	G, K := &r.G.w, &r.K.w
	which := c.n(6)
	switch which {
	case 0, 1: // Map[G5]: Get / Has / Set
		m := generic.NewMap[G5](G)
		if m.ID() != r.G.ids[5] {
			return r.viol("Map[G5].ID() = %d, TypeID gave %d", idOf(m.ID()), idOf(r.G.ids[5]))
		}
		e, ok := r.pickWhere(c, func(e ecs.Entity) bool { return K.Has(e, r.K.ids[5]) })
		if !ok {
			return nil
		}
		val := r.vals(1)[0]
		var gp *G5
		var gh, kh bool
		var got unsafe.Pointer
		v, p := r.both("Map.Has/Get/Set", func() {
			gh = m.Has(e)
			if m.HasUnchecked(e) != gh {
				panic("HasUnchecked differs from Has")
			}
			got = unsafe.Pointer(m.Get(e))
			if gh {
				gp = m.Set(e, &G5{V: val})
			}
		}, func() {
			kh = K.Has(e, r.K.ids[5])
			K.Get(e, r.K.ids[5])
			if kh {
				K.Set(e, r.K.ids[5], &G5{V: val})
			}
		})
		if v != nil || p {
			return v
		}
		if gh != kh {
			return r.viol("Map.Has=%v, World.Has=%v", gh, kh)
		}
		if got != G.Get(e, r.G.ids[5]) || (gh && unsafe.Pointer(gp) != G.Get(e, r.G.ids[5])) {
			return r.viol("Map.Get/Set did not return the pointer World.Get returns")
		}
		if unsafe.Pointer(m.GetUnchecked(e)) != G.GetUnchecked(e, r.G.ids[5]) {
			return r.viol("Map.GetUnchecked differs from World.GetUnchecked")
		}
	case 2, 3: // Map[GRelA]: GetRelation / SetRelation
		m := generic.NewMap[GRelA](G)
		e, ok := r.pickWhere(c, func(e ecs.Entity) bool { return K.Has(e, r.K.ids[c18RelA]) })
		if any, ok2 := r.pick(c); ok2 && c.n(5) == 0 {
			e, ok = any, true // now and then an entity that may lack the relation component: refused by both
		}
		if !ok {
			return nil
		}
		tg, _ := r.pick(c)
		if c.n(4) == 0 {
			tg = ecs.Entity{}
		}
		var gt, kt, gt2 ecs.Entity
		if alive := K.Alive(e); !alive || !K.Has(e, r.K.ids[c18RelA]) {
			v, _ := r.both("Map.GetRelation on an entity without the relation component", func() { m.GetRelation(e) }, func() { K.Relations().Get(e, r.K.ids[c18RelA]) })
			r.stats["getrelation-without-relation"]++
			return v
		}
		v, p := r.both("Map.SetRelation/GetRelation", func() { m.SetRelation(e, tg); gt = m.GetRelation(e); gt2 = m.GetRelationUnchecked(e) },
			func() { K.Relations().Set(e, r.K.ids[c18RelA], tg); kt = K.Relations().Get(e, r.K.ids[c18RelA]) })
		if v != nil || p {
			return v
		}
		if gt != kt || gt2 != kt {
			return r.viol("Map.GetRelation=%v (unchecked %v), Relations.Get=%v", gt, gt2, kt)
		}
	default: // Map[GRelA].SetRelationBatch(Q)
		m := generic.NewMap[GRelA](G)
		tg, _ := r.pick(c)
		isQ := which == 5
		var gn, kn int
		var gents, kents []ecs.Entity
		var relOK = true
		gf, kf := ecs.All(r.G.ids[c18RelA]), ecs.All(r.K.ids[c18RelA])
		v, p := r.both("Map.SetRelationBatch", func() {
			if isQ {
				q := m.SetRelationBatchQ(gf, tg)
				gn = q.Count()
				for q.Next() {
					gents = append(gents, q.Entity())
					if unsafe.Pointer(q.Get()) != G.Get(q.Entity(), r.G.ids[c18RelA]) || q.Relation() != tg {
						relOK = false
					}
				}
			} else {
				gn = m.SetRelationBatch(gf, tg)
			}
		}, func() {
			if isQ {
				q := K.Batch().SetRelationQ(kf, r.K.ids[c18RelA], tg)
				kents, kn = kCollect(&q)
			} else {
				kn = K.Batch().SetRelation(kf, r.K.ids[c18RelA], tg)
			}
		})
		if v != nil || p {
			return v
		}
		if gn != kn || !sameEnts(gents, kents) || !relOK {
			return r.viol("Map.SetRelationBatch(Q): %d/%d entities vs core %d/%d (positional ok=%v)", gn, len(gents), kn, len(kents), relOK)
		}
	}
	return nil
}

// opExchange: generic.Exchange helper.
func (r *c18Run) opExchange(c *cursor) *Violation {
	G, K := &r.G.w, &r.K.w
	comps := []generic.Comp{generic.T[G0](), generic.T[G1](), generic.T[G2](), generic.T[G3](), generic.T[G4](), generic.T[G5](),
		generic.T[G6](), generic.T[G7](), generic.T[G8](), generic.T[G9](), generic.T[G10](), generic.T[G11](), generic.T[GRelA](), generic.T[GRelB]()}
	e, ok := r.pick(c)
	if !ok || c.n(100) < 20 {
		// exercise NewEntity
		e = ecs.Entity{}
	}
	forceRel := e.IsZero() && c.n(2) == 0
	var add, rem []int
	if forceRel {
		add = append(add, c18RelA)
	}
	for t := 0; t < 14; t++ {
		k := c.n(100)
		if !r.registered(t) {
			continue
		}
		if e.IsZero() {
			if k < 15 && t != c18RelB && !(forceRel && t == c18RelA) {
				add = append(add, t)
			}
			continue
		}
		has := K.Has(e, r.K.ids[t])
		if has && k < 20 {
			rem = append(rem, t)
		} else if !has && k < 12 && t < 12 {
			add = append(add, t)
		}
	}
	var ac, rc []generic.Comp
	for _, t := range add {
		ac = append(ac, comps[t])
	}
	for _, t := range rem {
		rc = append(rc, comps[t])
	}
	kadd, krem := r.idsOf(r.K, add), r.idsOf(r.K, rem)
	if e.IsZero() && contains2(add, c18RelA) {
		// creation with a relation target; the builder methods are called in a drawn order
		tg, _ := r.pick(c)
		var ex *generic.Exchange
		switch c.n(3) {
		case 0:
			ex = generic.NewExchange(G).Adds(ac...).WithRelation(generic.T[GRelA]())
		case 1:
			ex = generic.NewExchange(G).WithRelation(generic.T[GRelA]()).Adds(ac...)
		default:
			ex = generic.NewExchange(G).Adds(generic.T[G5](), generic.T[GRelA]()).WithRelation(generic.T[GRelA]()).Adds(ac...)
		}
		var ge, ke ecs.Entity
		v, _ := r.both("Exchange.NewEntity(target)", func() { ge = ex.NewEntity(tg) }, func() {
			ke = ecs.NewBuilder(K, kadd...).WithRelation(r.K.ids[c18RelA]).New(tg)
		})
		if v != nil {
			return v
		}
		if ge != ke {
			return r.viol("Exchange.NewEntity(target) returned %v, Builder.New %v", ge, ke)
		}
		return nil
	}
	ex := generic.NewExchange(G).Adds(ac...).Removes(rc...)
	// relation target: only when the result certainly carries GRelA
	withRel := false
	var tg ecs.Entity
	if !e.IsZero() && K.Has(e, r.K.ids[c18RelA]) && c.n(3) == 0 {
		keep := true
		for _, t := range rem {
			if t == c18RelA {
				keep = false
			}
		}
		if keep && (len(add) > 0 || len(rem) > 0) {
			withRel = true
			ex = ex.WithRelation(generic.T[GRelA]())
			tg, _ = r.pick(c)
		}
	}
	if e.IsZero() {
		var ge, ke ecs.Entity
		v, _ := r.both("Exchange.NewEntity", func() { ge = ex.NewEntity() }, func() { ke = K.NewEntity(kadd...) })
		if v != nil {
			return v
		}
		if ge != ke {
			return r.viol("Exchange.NewEntity returned %v, World.NewEntity %v", ge, ke)
		}
		return nil
	}
	switch c.n(3) {
	case 0:
		if len(rem) == 0 || withRel {
			v, _ := r.both("Exchange.Add", func() {
				if withRel {
					ex.Add(e, tg)
				} else {
					ex.Add(e)
				}
			}, func() {
				if withRel {
					K.Relations().Exchange(e, kadd, nil, r.K.ids[c18RelA], tg)
				} else {
					K.Add(e, kadd...)
				}
			})
			return v
		}
		v, _ := r.both("Exchange.Remove", func() { ex.Remove(e) }, func() { K.Remove(e, krem...) })
		return v
	case 1:
		v, _ := r.both("Exchange.Exchange", func() {
			if withRel {
				ex.Exchange(e, tg)
			} else {
				ex.Exchange(e)
			}
		}, func() {
			if withRel {
				K.Relations().Exchange(e, kadd, krem, r.K.ids[c18RelA], tg)
			} else {
				K.Exchange(e, kadd, krem)
			}
		})
		return v
	default:
		// batch over exactly the entities that look like e: exclusive mask of e's components
		gm, km := G.Mask(e), K.Mask(e)
		gf, kf := gm.Exclusive(), km.Exclusive()
		var gn, kn int
		v, _ := r.both("Exchange.ExchangeBatch", func() {
			if withRel {
				gn = ex.ExchangeBatch(&gf, tg)
			} else {
				gn = ex.ExchangeBatch(&gf)
			}
		}, func() {
			if withRel {
				kn = K.Relations().ExchangeBatch(&kf, kadd, krem, r.K.ids[c18RelA], tg)
			} else {
				kn = K.Batch().Exchange(&kf, kadd, krem)
			}
		})
		if v != nil {
			return v
		}
		if gn != kn {
			return r.viol("Exchange.ExchangeBatch returned %d, core %d", gn, kn)
		}
	}
	return nil
}

// c18Filt is a generic filter object that lives across steps, with its configuration mirrored on the core side.
// flt0 drives generic.Filter0 / Query0 (no component access) through the filterDriver interface.
type flt0 struct{ f *generic.Filter0 }

func (f *flt0) With(c ...generic.Comp)                      { f.f.With(c...) }
func (f *flt0) Without(c ...generic.Comp)                   { f.f.Without(c...) }
func (f *flt0) Optional(c ...generic.Comp)                  {}
func (f *flt0) Exclusive()                                  { f.f.Exclusive() }
func (f *flt0) WithRelation(c generic.Comp, t []ecs.Entity) { f.f.WithRelation(c, t...) }
func (f *flt0) Register(w *ecs.World)                       { f.f.Register(w) }
func (f *flt0) Unregister(w *ecs.World)                     { f.f.Unregister(w) }
func (f *flt0) Filter(w *ecs.World, t []ecs.Entity) ecs.Filter {
	return f.f.Filter(w, t...)
}
func (f *flt0) Query(w *ecs.World, t []ecs.Entity, withRel bool) qres {
	q := f.f.Query(w, t...)
	r := qres{count: q.Count(), hasRel: withRel}
	for q.Next() {
		r.ents = append(r.ents, q.Entity())
		r.ptrs = append(r.ptrs, nil)
		if withRel {
			r.rel = append(r.rel, q.Relation())
		}
	}
	return r
}

func (f *flt0) QuerySplit(w *ecs.World, t []ecs.Entity, withRel bool, k int, between func()) qres {
	q := f.f.Query(w, t...)
	r := qres{count: q.Count(), hasRel: withRel}
	for q.Next() {
		r.ents = append(r.ents, q.Entity())
		r.ptrs = append(r.ptrs, nil)
		if withRel {
			r.rel = append(r.rel, q.Relation())
		}
		if len(r.ents) == k {
			between()
		}
	}
	if len(r.ents) < k {
		between()
	}
	return r
}

type c18Filt struct {
	arity0      bool
	f           filterDriver
	include     []int
	optional    []int
	exclude     []int
	exclusive   bool
	rel         int
	fixedTarget *ecs.Entity
	registered  bool
	nq          int
}

// opFilter: one round on a filter object that persists across steps — a few builder calls in a drawn order, now and
// then Register / Unregister, then a query — so that builder calls fall before the first query and between queries
// while the world changes in between. The selection must equal the core filter for the configuration at that time.
func (r *c18Run) opFilter(c *cursor) *Violation {
	G, K := &r.G.w, &r.K.w
	comps := func(t int) generic.Comp { return generic.Comp(c18Types[t]) }
	if r.filt != nil && !r.filt.registered && c.n(100) < 18 {
		if fl := r.filt; fl.rel < 0 && c.n(2) == 0 {
			// the last use of this filter object: a builder call, then a query on ANOTHER world (types registered in the
			// opposite order); the selection must be the one of the equivalent core filter built with that world's IDs
			r.otherWorld()
			inM := func(t int) bool { return !fl.arity0 && contains2(r.mapT, t) }
			t0 := c.n(12)
			did := false
			for i := 0; i < 12; i++ {
				x := (t0 + i) % 12
				if !inM(x) && !contains2(fl.include, x) && !contains2(fl.exclude, x) {
					fl.f.With(comps(x))
					fl.include = append(fl.include, x)
					did = true
					break
				}
			}
			if !did {
				r.filt = nil // without a builder call the filter stays compiled for the first world: nothing to check
				return nil
			}
			var inc []ecs.ID
			for _, t := range fl.include {
				if !contains2(fl.optional, t) {
					inc = append(inc, r.hids[t])
				}
			}
			mask := ecs.All(inc...)
			var hf ecs.Filter = mask
			if fl.exclusive {
				mf := mask.Exclusive()
				hf = &mf
			} else if len(fl.exclude) > 0 {
				var exc []ecs.ID
				for _, t := range fl.exclude {
					exc = append(exc, r.hids[t])
				}
				mf := mask.Without(exc...)
				hf = &mf
			}
			var gq qres
			var msg string
			func() {
				defer func() {
					if x := recover(); x != nil {
						msg = fmt.Sprint(x)
					}
				}()
				gq = fl.f.Query(r.H, nil, false)
			}()
			if msg != "" {
				return r.viol("FilterN.Query on another world panicked: %s", msg)
			}
			hq := r.H.Query(hf)
			hents, hn := kCollect(&hq)
			r.Concrete = append(r.Concrete, "filter used on another world after a builder call")
			if gq.count != hn || !sameEnts(gq.ents, hents) {
				return r.viol("FilterN.Query on another world (same types, registered in the opposite order; include %v optional %v exclude %v exclusive %v) selects %d entities, the equivalent core filter %d",
					fl.include, fl.optional, fl.exclude, fl.exclusive, len(gq.ents), len(hents))
			}
			r.stats["filter-used-on-another-world"]++
		} else {
			c.n(1)
		}
		r.filt = nil
	} else {
		c.n(1)
	}
	if r.filt == nil {
		if c.n(100) < 12 {
			r.filt = &c18Filt{arity0: true, f: &flt0{f: generic.NewFilter0()}, rel: -1}
			r.Concrete = append(r.Concrete, "new Filter0")
			r.stats["filter0-used"]++
		} else {
			r.filt = &c18Filt{f: r.drv.NewFilter(), include: append([]int{}, r.mapT...), rel: -1}
			r.Concrete = append(r.Concrete, "new FilterN")
		}
	}
	fl := r.filt
	f := fl.f
	inMap := func(t int) bool { return !fl.arity0 && contains2(r.mapT, t) }
	coreFilter := func(target *ecs.Entity) ecs.Filter {
		var inc []int
		for _, t := range fl.include {
			if !contains2(fl.optional, t) {
				inc = append(inc, t)
			}
		}
		for _, t := range append(append([]int{}, fl.include...), fl.exclude...) {
			if !r.K.reg[t] {
				// the documented equivalent needs the ID, so it registers the type
				r.K.ids[t] = ecs.TypeID(K, c18Types[t])
				r.K.reg[t] = true
			}
		}
		mask := ecs.All(r.idsOf(r.K, inc)...)
		var flt ecs.Filter = mask
		if fl.exclusive {
			mf := mask.Exclusive()
			flt = &mf
		} else if len(fl.exclude) > 0 {
			mf := mask.Without(r.idsOf(r.K, fl.exclude)...)
			flt = &mf
		}
		tg := target
		if fl.fixedTarget != nil {
			tg = fl.fixedTarget
		}
		if fl.rel >= 0 && tg != nil {
			rf := ecs.NewRelationFilter(flt, *tg)
			return &rf
		}
		return flt
	}
	nb := c.n(3)
	if fl.nq == 0 {
		nb = 1 + c.n(3)
	}
	for b := 0; b < nb && !fl.registered; b++ {
		t := c.n(12)
		switch c.n(5) {
		case 0:
			if !inMap(t) && !contains2(fl.include, t) && !contains2(fl.exclude, t) {
				f.With(comps(t))
				fl.include = append(fl.include, t)
				r.Concrete = append(r.Concrete, fmt.Sprintf("filter.With(%v)", c18Types[t]))
			}
		case 1:
			if !fl.exclusive && !inMap(t) && !contains2(fl.include, t) {
				f.Without(comps(t))
				fl.exclude = append(fl.exclude, t)
				r.Concrete = append(r.Concrete, fmt.Sprintf("filter.Without(%v)", c18Types[t]))
			}
		case 2:
			if len(r.mapT) > 0 && !fl.arity0 {
				o := r.mapT[c.n(len(r.mapT))]
				if o != fl.rel && o < 12 {
					f.Optional(comps(o))
					fl.optional = append(fl.optional, o)
					r.Concrete = append(r.Concrete, fmt.Sprintf("filter.Optional(%v)", c18Types[o]))
				}
			}
		case 3:
			if len(fl.exclude) == 0 && !fl.exclusive {
				f.Exclusive()
				fl.exclusive = true
				r.Concrete = append(r.Concrete, "filter.Exclusive()")
			}
		case 4:
			if r.relT >= 0 && fl.rel < 0 && !fl.arity0 && !contains2(fl.optional, r.relT) {
				fl.rel = r.relT
				if c.n(3) == 0 {
					tg, _ := r.pick(c)
					fl.fixedTarget = &tg
					f.WithRelation(comps(fl.rel), []ecs.Entity{tg})
				} else {
					f.WithRelation(comps(fl.rel), nil)
				}
				r.Concrete = append(r.Concrete, "filter.WithRelation")
			} else if fl.rel >= 0 && fl.fixedTarget != nil && fl.nq > 0 {
				// the fixed target is replaced by another one after the filter has been used
				tg, _ := r.pick(c)
				fl.fixedTarget = &tg
				f.WithRelation(comps(fl.rel), []ecs.Entity{tg})
				r.stats["filter-fixed-target-replaced"]++
				r.Concrete = append(r.Concrete, "filter.WithRelation (another fixed target)")
			}
		}
	}
	if c.n(5) == 0 {
		if !fl.registered {
			var msg string
			func() {
				defer func() {
					if x := recover(); x != nil {
						msg = fmt.Sprint(x)
					}
				}()
				f.Register(G)
			}()
			if msg != "" {
				return r.viol("FilterN.Register panicked: %s", msg)
			}
			fl.registered = true
			r.stats["filter-registered"]++
			r.Concrete = append(r.Concrete, "filter.Register")
		} else {
			f.Unregister(G)
			fl.registered = false
			r.Concrete = append(r.Concrete, "filter.Unregister")
		}
	}
	var target *ecs.Entity
	var tl []ecs.Entity
	if fl.rel >= 0 && fl.fixedTarget == nil && !fl.registered && c.n(2) == 0 {
		tg, _ := r.pick(c)
		target = &tg
		tl = []ecs.Entity{tg}
	}
	withRel := fl.rel >= 0 && !contains2(fl.optional, fl.rel)
	if fl.rel >= 0 && (fl.fixedTarget != nil || fl.registered) && c.n(5) == 0 {
		// a target handed to a filter whose target is fixed, or which is registered: refused - and the refusal must not
		// leave a trace in the filter (the ordinary query right below compares it with the core filter again)
		tg, _ := r.pick(c)
		refused := func() (p bool) {
			defer func() { p = recover() != nil }()
			f.Query(G, []ecs.Entity{tg}, withRel)
			return
		}()
		if !refused {
			return r.viol("FilterN.Query with a target was accepted by a filter that is registered or has a fixed target")
		}
		r.stats["filter-target-refused"]++
	}
	if !fl.registered && fl.nq > 0 && c.n(4) == 0 {
		// a builder call naming a type the world does not know yet, and the first use of the filter after it while another
		// query is open: registering the type is refused (locked world), the call panics - and must leave the filter as
		// the builder configured it, not "compiled" with its previous selection
		t := -1
		for x := 0; x < 12; x++ {
			if !r.G.reg[x] && !r.K.reg[x] && !inMap(x) && !contains2(fl.include, x) && !contains2(fl.exclude, x) {
				t = x
				break
			}
		}
		if t >= 0 {
			gl, kl := G.Query(ecs.All()), K.Query(ecs.All())
			f.With(comps(t))
			v, p := r.both("FilterN.Query naming an unknown type in a locked world", func() { f.Query(G, tl, withRel) }, func() { ecs.TypeID(K, c18Types[t]) })
			gl.Close()
			kl.Close()
			fl.include = append(fl.include, t)
			r.Concrete = append(r.Concrete, fmt.Sprintf("filter.With(%v) (unknown type), query refused in a locked world", c18Types[t]))
			if v != nil {
				return v
			}
			if !p {
				return r.viol("FilterN.Query naming a component type that is not registered was accepted in a locked world")
			}
			r.stats["filter-compile-refused-under-lock"]++
			// falls through to the ordinary query below: now the type can be registered and the filter must select with it
		}
	}
	if !fl.registered && c.n(6) == 0 {
		// a query held open across a builder call and a recompilation of the same filter object: the open query keeps
		// the selection it was built with (like a core query keeps its filter value)
		t := -1
		t0 := c.n(12)
		for i := 0; i < 12; i++ {
			x := (t0 + i) % 12
			if r.registered(x) && !inMap(x) && !contains2(fl.include, x) && !contains2(fl.exclude, x) {
				t = x
				break
			}
		}
		k := 1 + c.n(3)
		tl2 := tl
		if fl.rel >= 0 && fl.fixedTarget == nil {
			// and the same filter object is asked for another relation target meanwhile
			other, _ := r.pick(c)
			tl2 = []ecs.Entity{other}
		} else {
			c.n(1)
		}
		if t >= 0 {
			kf := coreFilter(target)
			var gq qres
			var kents []ecs.Entity
			var kn int
			v, p := r.both(fmt.Sprintf("FilterN.Query #%d (held open across With + recompilation)", fl.nq), func() {
				gq = f.QuerySplit(G, tl, withRel, k, func() {
					f.With(comps(t))
					f.Filter(G, tl2)
				})
			}, func() {
				r.syncTypes()
				q := K.Query(kf)
				kents, kn = kCollect(&q)
			})
			fl.include = append(fl.include, t)
			fl.nq++
			r.Concrete = append(r.Concrete, fmt.Sprintf("filter query held open; filter.With(%v); recompiled", c18Types[t]))
			if v != nil || p {
				return v
			}
			if gq.count != kn || !sameEnts(gq.ents, kents) {
				return r.viol("FilterN.Query held open across a builder call and a recompilation of its filter object visits %d entities (Count %d), the core query opened at the same moment %d (Count %d)", len(gq.ents), gq.count, len(kents), kn)
			}
			r.stats["filter-query-held-open-across-recompile"]++
			return nil
		}
	}
	var gq qres
	var kents []ecs.Entity
	var kn int
	v, p := r.both(fmt.Sprintf("FilterN.Query #%d", fl.nq), func() { gq = f.Query(G, tl, withRel) }, func() {
		r.syncTypes()
		q := K.Query(coreFilter(target))
		kents, kn = kCollect(&q)
	})
	fl.nq++
	if v != nil {
		return v
	}
	if p {
		return nil
	}
	if gq.count != kn || !sameEnts(gq.ents, kents) {
		return r.viol("FilterN.Query #%d (include %v optional %v exclude %v exclusive %v relation %d registered %v) selects %d entities, the equivalent core filter %d",
			fl.nq-1, fl.include, fl.optional, fl.exclude, fl.exclusive, fl.rel, fl.registered, len(gq.ents), len(kents))
	}
	opt := map[int]bool{}
	for _, o := range fl.optional {
		opt[o] = true
	}
	for i, e := range gq.ents {
		if !fl.arity0 {
			if v := r.checkPtrs("QueryN.Get", e, gq.ptrs[i], opt); v != nil {
				return v
			}
		}
		if withRel && gq.rel[i] != K.Relations().Get(e, r.K.ids[fl.rel]) {
			return r.viol("QueryN.Relation = %v, Relations.Get = %v", gq.rel[i], K.Relations().Get(e, r.K.ids[fl.rel]))
		}
	}
	if fl.nq > 1 {
		r.stats["filter-requeried-after-change"]++
	}
	if len(gq.ents) > 0 {
		r.stats["filter-query-nonempty"]++
	}
	return nil
}

func contains2(l []int, x int) bool {
	for _, y := range l {
		if y == x {
			return true
		}
	}
	return false
}

type C18Res struct{ V uint64 }

// opResource: generic.Resource vs Resources.
func (r *c18Run) opResource(c *cursor) *Violation {
	G, K := &r.G.w, &r.K.w
	if r.resMapper == nil {
		m := generic.NewResource[C18Res](G)
		r.resMapper = &m
	}
	gr := r.resMapper
	if c.n(8) == 0 {
		m := generic.NewResource[C18Res](G) // a second mapper for the same type now and then
		gr = &m
	}
	kid := ecs.ResourceID[C18Res](K)
	if gr.ID() != ecs.ResourceID[C18Res](G) {
		return r.viol("Resource.ID differs from ResourceID")
	}
	if c.n(6) == 0 {
		// a distinct type with the same printed name, never added: its mapper must see nothing
		if msg := sameNamedResourceProbe(G, gr.ID()); msg != "" {
			return r.viol("%s", msg)
		}
	} else {
		c.n(1)
	}
	val := &C18Res{V: r.vals(1)[0]}
	switch c.n(4) {
	case 0:
		v, _ := r.both("Resource.Add", func() { gr.Add(val) }, func() { K.Resources().Add(kid, val) })
		return v
	case 1:
		v, _ := r.both("Resource.Remove", func() { gr.Remove() }, func() { K.Resources().Remove(kid) })
		return v
	case 2:
		var g *C18Res
		var k interface{}
		v, p := r.both("Resource.Get", func() { g = gr.Get() }, func() { k = K.Resources().Get(kid) })
		if v != nil || p {
			return v
		}
		if (g == nil) != (k == nil) || (g != nil && g != k.(*C18Res)) {
			return r.viol("Resource.Get = %v, Resources.Get = %v", g, k)
		}
	default:
		var g, k bool
		v, p := r.both("Resource.Has", func() { g = gr.Has() }, func() { k = K.Resources().Has(kid) })
		if v != nil || p {
			return v
		}
		if g != k {
			return r.viol("Resource.Has = %v, Resources.Has = %v", g, k)
		}
	}
	return nil
}

// sameNamedResourceProbe: a function-local type that prints like the package-level C18Res is a different resource
// type: own ID, never present.
func sameNamedResourceProbe(w *ecs.World, other ecs.ResID) (msg string) {
	type C18Res struct{ V uint64 }
	defer func() {
		if x := recover(); x != nil {
			msg = fmt.Sprintf("generic.Resource of a never-added type that merely has the same name panicked: %v", x)
		}
	}()
	m := generic.NewResource[C18Res](w)
	if m.ID() == other {
		return "two distinct resource types with the same printed name share one ID"
	}
	if m.Has() || m.Get() != nil {
		return "generic.Resource reports a resource of a type that was never added (another type with the same printed name was)"
	}
	return ""
}
