package sim

import (
	"bytes"
	"fmt"
	"unsafe"

	"github.com/mlange-42/arche/ecs"
)

func (e *Engine) v(sys *Sys, class string, format string, args ...interface{}) *Violation {
	return &Violation{Class: class, Step: e.step, Msg: fmt.Sprintf(format, args...), World: sys.Name}
}

// checkEntity compares everything the public API reports about one alive entity with the model.
// checkEntity compares one entity with the model. When the components or the target differ while a listener subscribed
// to everything has received exactly the predicted events, the event stream does not describe the world either
// ("replaying the stream reconstructs every entity's components and targets", C11): the mismatch is also an event
// violation.
func (e *Engine) checkEntity(s *Sys, me *MEnt, cl string) *Violation {
	v := e.checkEntityRaw(s, me, cl)
	if v != nil && (v.Class == "compset" || v.Class == "target") && s == e.S && e.listening() && e.P.Listener == "all" {
		deferred := false // events of this entity still held back by an open batch query
		for _, oq := range e.Open {
			if oq.HasDef && oq.ExpSet[me.H] {
				deferred = true
			}
		}
		if !deferred {
			v.Also = append(v.Also, "event")
		}
	}
	return v
}

func (e *Engine) checkEntityRaw(s *Sys, me *MEnt, _ string) *Violation {
	w := s.W
	h := me.H
	if !w.Alive(h) {
		return e.v(s, "handle", "entity %v should be alive", h)
	}
	mask := w.Mask(h)
	set, foreign := s.maskToSet(&mask)
	if foreign || set != me.Cs {
		return e.v(s, "compset", "entity %v: Mask reports %v (foreign=%v), model has %v", h, listOf(set), foreign, listOf(me.Cs))
	}
	ids := w.Ids(h)
	if len(ids) > 1 && (e.step+int(h.ID()))%3 == 0 {
		// "the result can be manipulated safely": do what a caller filtering the list in place does, and look again
		first := append([]ecs.ID{}, ids...)
		for i := range ids {
			ids[i] = ids[len(ids)-1]
		}
		ids = append(ids[:0], first[len(first)-1])
		again := w.Ids(h)
		same := len(again) == len(first)
		for i := 0; same && i < len(first); i++ {
			same = again[i] == first[i]
		}
		if !same {
			return e.v(s, "compset", "entity %v: World.Ids reports other IDs after the slice it returned before was written to (it is documented as a copy)", h)
		}
		ids = first
	}
	iset, dup, f2 := s.idsToSet(ids)
	if dup || f2 || iset != me.Cs {
		return e.v(s, "compset", "entity %v: Ids reports %v, model has %v", h, listOf(iset), listOf(me.Cs))
	}
	for t, ok := range s.Reg {
		if !ok {
			continue
		}
		id := s.IDs[t]
		has := w.Has(h, id)
		if has != me.Has(t) || w.HasUnchecked(h, id) != has {
			return e.v(s, "compset", "entity %v: Has(type %d)=%v, model %v", h, t, has, me.Has(t))
		}
		p := w.Get(h, id)
		if (p != nil) != has {
			return e.v(s, "compset", "entity %v: Get(type %d) nil=%v but Has=%v", h, t, p == nil, has)
		}
		if w.GetUnchecked(h, id) != p {
			return e.v(s, "compset", "entity %v: GetUnchecked(type %d) differs from Get", h, t)
		}
		if !has {
			continue
		}
		val, ok := s.ReadValue(t, p)
		if !ok {
			return e.v(s, "gc-integrity", "entity %v type %d: referenced data missing or corrupt (canary %d, want %d)", h, t, leU64(val), leU64(me.Val[t]))
		}
		if !bytes.Equal(val, me.Val[t]) {
			v := e.v(s, "value", "entity %v type %d: value %x, model %x", h, t, val, me.Val[t])
			if e.M.relOf(me.Cs) >= 0 && allZero(me.Val[t]) {
				// a component that must read zero shows data: a value turning up under a relation target it was never assigned to
				v.Also = append(v.Also, "stale-under-target")
			}
			if e.P.Types[t].IsPtr() {
				// a pointer-carrying component that no longer references what was supplied: C14 ("stays intact ... however
				// the value was supplied") as much as C01
				v.Also = append(v.Also, "gc-integrity")
			}
			return v
		}
	}
	rel := e.M.relOf(me.Cs)
	if rel >= 0 && s.Reg[rel] {
		got := w.Relations().Get(h, s.IDs[rel])
		if got != me.Target || w.Relations().GetUnchecked(h, s.IDs[rel]) != got {
			return e.v(s, "target", "entity %v: target %v, model %v", h, got, me.Target)
		}
	}
	return nil
}

func allZero(b []byte) bool {
	for _, x := range b {
		if x != 0 {
			return false
		}
	}
	return true
}

func override(v *Violation, class string) *Violation {
	if v != nil && class != "" {
		v.Facts = append(v.Facts, "underlying:"+v.Class)
		v.Class = class
	}
	return v
}

// collect iterates a query to exhaustion and returns the visited entities.
func collect(q *ecs.Query) []ecs.Entity {
	var out []ecs.Entity
	for q.Next() {
		out = append(out, q.Entity())
	}
	return out
}

func toSet(l []ecs.Entity) (map[ecs.Entity]bool, bool) {
	m := make(map[ecs.Entity]bool, len(l))
	dup := false
	for _, x := range l {
		if m[x] {
			dup = true
		}
		m[x] = true
	}
	return m, dup
}

// checkAll is the full observable comparison. class, if set, overrides the class of any mismatch
// (used right after a rejected call).
func (e *Engine) checkAll(s *Sys, class string) *Violation {
	return override(e.checkAllRaw(s), class)
}

func (e *Engine) checkAllRaw(s *Sys) *Violation {
	v := e.checkAllRaw0(s)
	if v != nil && s.Name == "primary" && (e.P.Profile == "C05" || e.P.Profile == "C06") && v.Class != "target-census-missing" {
		// A run ends at its first mismatch, and the full comparison looks at entities, counts and Stats() before it looks
		// at relation filters. When the relation properties are being checked, their own oracle (per target: the relation
		// filter selects exactly the model's children) gives its opinion on this very state as well.
		func() {
			defer func() { recover() }()
			if v2 := e.census(s); v2 != nil {
				v.Also = append(v.Also, v2.Class)
				v.Also = append(v.Also, v2.Also...)
				v.Msg += "; at the same instant: " + v2.Msg
			}
		}()
	}
	return v
}

func (e *Engine) checkAllRaw0(s *Sys) *Violation {
	w := s.W
	m := e.M
	if s.Name == "load" {
		return e.checkLoad(s)
	}
	for _, me := range m.Alive {
		if v := e.checkEntity(s, me, ""); v != nil {
			return v
		}
	}
	for _, h := range m.Dead {
		if w.Alive(h) {
			return e.v(s, "handle", "removed entity %v reported alive", h)
		}
	}
	if w.Alive(ecs.Entity{}) {
		return e.v(s, "handle", "zero entity reported alive")
	}
	if used := w.Stats().Entities.Used; used != len(m.Alive) {
		return e.v(s, "alive-count", "Stats().Entities.Used=%d, model has %d alive", used, len(m.Alive))
	}
	st := w.Stats()
	if st.Entities.Total-st.Entities.Recycled != st.Entities.Used || st.Entities.Recycled < 0 || st.Entities.Capacity < st.Entities.Total {
		return e.v(s, "alive-count", "Stats().Entities inconsistent: used %d, total %d, recycled %d, capacity %d", st.Entities.Used, st.Entities.Total, st.Entities.Recycled, st.Entities.Capacity)
	}
	if st.ComponentCount != len(s.regOrder) {
		return e.v(s, "registry", "Stats().ComponentCount=%d, %d types registered", st.ComponentCount, len(s.regOrder))
	}
	if st.Locked != e.locked() {
		return e.v(s, "lock-ledger", "Stats().Locked=%v with %d queries open", st.Locked, len(e.Open))
	}
	nreg := 0
	for _, r := range e.Reg {
		if r {
			nreg++
		}
	}
	if st.CachedFilters != nreg {
		return e.v(s, "cache-diff", "Stats().CachedFilters=%d, %d filters are registered", st.CachedFilters, nreg)
	}
	rows := 0
	for i := range st.Nodes {
		if st.Nodes[i].IsActive {
			rows += st.Nodes[i].Size
		}
	}
	if rows != len(m.Alive) {
		return e.v(s, "alive-count", "Stats(): tables hold %d entities in total, %d are alive", rows, len(m.Alive))
	}
	for i := range st.Nodes {
		n := &st.Nodes[i]
		if n.ActiveArchetypeCount > n.ArchetypeCount || n.ActiveArchetypeCount < 0 {
			return e.v(s, "stats", "node %d: ActiveArchetypeCount=%d ArchetypeCount=%d", i, n.ActiveArchetypeCount, n.ArchetypeCount)
		}
		// the per-table entries add up to the node's figures; their sizes, in the order reported, are part of the
		// run's log (the same operations must give the same report in every process: C13)
		sum, active := 0, 0
		for j := range n.Archetypes {
			a := &n.Archetypes[j]
			if a.IsActive {
				active++
				sum += a.Size
			}
			if s.Name == "primary" {
				e.log.U64(uint64(a.Size)<<1 | b2u(a.IsActive))
			}
		}
		if len(n.Archetypes) != n.ArchetypeCount || active != n.ActiveArchetypeCount || (n.IsActive && sum != n.Size) {
			return e.v(s, "alive-count", "Stats(): node %d reports %d tables (%d active, %d rows), its table entries are %d (%d active, %d rows)", i, n.ArchetypeCount, n.ActiveArchetypeCount, n.Size, len(n.Archetypes), active, sum)
		}
		// the node's component list: IDs ascending, types as registered
		for j, id := range n.ComponentIDs {
			if j < len(n.ComponentTypes) && int(id) < len(st.ComponentTypes) && n.ComponentTypes[j] != st.ComponentTypes[id] {
				return e.v(s, "registry", "Stats(): node %d lists component ID %d with type %v, the world's ComponentTypes[%d] is %v", i, id, n.ComponentTypes[j], id, st.ComponentTypes[id])
			}
		}
	}
	// ComponentTypes is indexed by component ID
	if len(st.ComponentTypes) != st.ComponentCount {
		return e.v(s, "registry", "Stats().ComponentTypes has %d entries, ComponentCount is %d", len(st.ComponentTypes), st.ComponentCount)
	}
	for i, tp := range st.ComponentTypes {
		var id ecs.ID
		*(*uint8)(unsafe.Pointer(&id)) = uint8(i)
		if info, ok := ecs.ComponentInfo(w, id); !ok || info.Type != tp {
			return e.v(s, "registry", "Stats().ComponentTypes[%d] = %v, ComponentInfo of that ID says %v", i, tp, info.Type)
		}
	}
	// alive set through All()
	q := w.Query(ecs.All())
	cnt := q.Count()
	l := collect(&q)
	if s.Name == "primary" {
		e.logEnts("all", l)
	}
	set, dup := toSet(l)
	if dup || cnt != len(l) || len(set) != len(m.Alive) {
		return e.v(s, "alive-set", "Query(All()): %d visited (dup=%v), Count()=%d, model has %d alive", len(l), dup, cnt, len(m.Alive))
	}
	for _, me := range m.Alive {
		if !set[me.H] {
			return e.v(s, "alive-set", "Query(All()) misses alive entity %v", me.H)
		}
	}
	// resources
	for i, id := range s.ResIDs {
		if !s.ResReg[i] {
			if m.Res[i] != nil {
				return e.v(s, "resource", "resource %d is in the model but its type was never registered", i)
			}
			continue
		}
		has := w.Resources().Has(id)
		got := w.Resources().Get(id)
		want := s.ResVals[i]
		if has != (m.Res[i] != nil) {
			return e.v(s, "resource", "resource %d: Has=%v, model %v", i, has, m.Res[i] != nil)
		}
		if m.Res[i] == nil {
			if got != nil {
				return e.v(s, "resource", "resource %d: Get returns a value for an absent resource", i)
			}
		} else if got != want {
			return e.v(s, "resource", "resource %d: Get returns a different pointer", i)
		}
	}
	// filters: original vs model, registered vs original
	nslots := len(e.Slots)
	start, n := 0, nslots
	if nslots > 10 {
		start, n = e.step%nslots, 10
	}
	for k := 0; k < n; k++ {
		slot := (start + k) % nslots
		if v := e.checkSlot(s, slot); v != nil {
			return v
		}
	}
	// relation census per target
	if v := e.census(s); v != nil {
		return v
	}
	if v := e.checkRegistry(s); v != nil {
		return v
	}
	if err := worldInvariants(w); err != nil {
		if !e.suspect {
			e.suspect = true
			e.St.Suspect++
		}
	}
	return nil
}

func (e *Engine) checkSlot(s *Sys, slot int) *Violation {
	w := s.W
	spec := e.Slots[slot]
	q := w.Query(s.Filters[slot])
	cnt := q.Count()
	l := collect(&q)
	if s.Name == "primary" {
		e.logEnts("slot", l)
	}
	set, dup := toSet(l)
	if dup {
		return e.v(s, "query-set", "filter %s visits an entity twice", spec)
	}
	if cnt != len(l) {
		return relAlso(e.v(s, "query-pos", "filter %s: Count()=%d but %d visited", spec, cnt, len(l)), spec)
	}
	if v := e.entityAtAgrees(s, s.Filters[slot], l, spec.String()); v != nil {
		return relAlso(v, spec) // Count / EntityAt of a relation filter are also "what the relation filter selects"
	}
	nMust := 0
	for _, me := range e.M.Alive {
		must, may := spec.Match(e.M, me)
		if must {
			nMust++
		}
		if must && !set[me.H] {
			return e.v(s, "query-set", "filter %s misses matching entity %v %v", spec, me.H, listOf(me.Cs))
		}
		if !may && set[me.H] {
			return e.v(s, "query-set", "filter %s selects non-matching entity %v %v target %v", spec, me.H, listOf(me.Cs), me.Target)
		}
	}
	for _, h := range l {
		if _, ok := e.M.ByH[h]; !ok {
			return e.v(s, "query-set", "filter %s visits %v which is not alive", spec, h)
		}
	}
	if e.Reg[slot] && s.Cached[slot] != nil {
		q2 := w.Query(s.Cached[slot])
		cnt2 := q2.Count()
		l2 := collect(&q2)
		if s.Name == "primary" {
			e.logEnts("cached", l2)
		}
		set2, dup2 := toSet(l2)
		if dup2 || cnt2 != len(l2) {
			v := e.v(s, "cache-diff", "filter %s: registered visits %d (dup=%v, Count=%d), original %d", spec, len(l2), dup2, cnt2, len(l))
			v.Also = append(v.Also, "query-set") // C03 covers registered filters too: an entity visited twice / Count wrong
			return relAlso(v, spec)
		}
		for _, h := range l2 {
			if !set[h] {
				return e.cachedExtra(s, spec, h, len(l2), len(l))
			}
		}
		if len(set2) != len(set) {
			v := e.v(s, "cache-diff", "filter %s: registered visits %d, original %d", spec, len(l2), len(l))
			v.Also = append(v.Also, "query-set")
			return relAlso(v, spec)
		}
		for _, h := range l {
			if !set2[h] {
				return relAlso(e.v(s, "cache-diff", "filter %s: registered misses %v selected by the original", spec, h), spec)
			}
		}
		for _, h := range l2 {
			if !set[h] {
				return e.cachedExtra(s, spec, h, len(l2), len(l))
			}
		}
		if v := e.entityAtAgrees(s, s.Cached[slot], l2, spec.String()+" (registered)"); v != nil {
			return v
		}
		e.St.Probes["cached-compared"]++
	}
	return nil
}

// entityAtAgrees: on a second query over the same filter, EntityAt(i) is the i-th entity of the iteration (sampled),
// one index past the end is refused, and Step from the start lands where Next would.
func (e *Engine) entityAtAgrees(s *Sys, f ecs.Filter, seq []ecs.Entity, what string) *Violation {
	if len(seq) == 0 {
		return nil
	}
	q := s.W.Query(f)
	defer func() {
		func() {
			defer func() { recover() }()
			q.Close()
		}()
	}()
	n := len(seq)
	idx := []int{0, n - 1, n / 2, (e.step * 7) % n, (e.step*13 + 5) % n}
	for _, i := range idx {
		if got := q.EntityAt(i); got != seq[i] {
			return e.v(s, "query-pos", "filter %s: EntityAt(%d)=%v, the iteration visits %v there (of %d)", what, i, got, seq[i], n)
		}
	}
	k := 1 + (e.step*5)%n
	if ok := q.Step(k); !ok || q.Entity() != seq[k-1] {
		return e.v(s, "query-pos", "filter %s: Step(%d) from the start does not land on the %d-th entity of the iteration", what, k, k)
	}
	e.St.Probes["entityat-sampled"] += len(idx)
	return nil
}

// alsoClass adds a further class to a violation.
func alsoClass(v *Violation, class string) *Violation {
	v.Also = append(v.Also, class)
	return v
}

// relAlso: a registered RELATION filter is still a relation filter with target T; when its selection differs from the
// original's (which has just been checked against the model), it does not select "exactly those whose current target
// is T" either (C05).
func relAlso(v *Violation, spec *FilterSpec) *Violation {
	if spec.Kind == "relation" {
		v.Also = append(v.Also, "target-census-missing")
	}
	return v
}

// cachedExtra: the registered filter selects an entity the original does not.
func (e *Engine) cachedExtra(s *Sys, spec *FilterSpec, h ecs.Entity, n2, n1 int) *Violation {
	v := relAlso(e.v(s, "cache-diff", "filter %s: registered selects %v which the original does not (registered visits %d, original %d)", spec, h, n2, n1), spec)
	me := e.M.ByH[h]
	if me == nil {
		v.Also = append(v.Also, "query-set")
		return v
	}
	if _, may := spec.Match(e.M, me); !may {
		v.Also = append(v.Also, "query-set") // C03: a query through a registered filter visits a non-matching entity
		if spec.Kind == "relation" && e.M.relOf(me.Cs) >= 0 && me.Target != spec.Target {
			v.Also = append(v.Also, "leak-under-target") // C05/C06: entity shows up under a target it was not assigned to
		}
	}
	return v
}

// census: for every relation type and every target used, the relation filter selects exactly the model's children.
func (e *Engine) census(s *Sys) *Violation {
	w := s.W
	m := e.M
	targets := []ecs.Entity{{}}
	ts := sortedEntities(m.Targets)
	if len(ts) > 10 {
		off := e.step % len(ts)
		ts = append(ts[off:], ts[:off]...)[:10]
	}
	targets = append(targets, ts...)
	for _, r := range listOf(m.RelMask & m.Reg) {
		if !s.Reg[r] {
			continue
		}
		for _, t := range targets {
			rf := ecs.NewRelationFilter(ecs.All(s.IDs[r]), t)
			q := w.Query(&rf)
			cnt := q.Count()
			l := collect(&q)
			if cnt != len(l) {
				return e.v(s, "target-census-missing", "relation filter (type %d, target %v): Count()=%d but %d entities are visited", r, t, cnt, len(l))
			}
			if v := e.entityAtAgrees(s, &rf, l, fmt.Sprintf("relation filter (type %d, target %v)", r, t)); v != nil {
				return alsoClass(v, "target-census-missing")
			}
			set, dup := toSet(l)
			want := m.Children(r, t)
			if dup {
				return e.v(s, "query-set", "relation filter (type %d, target %v) visits an entity twice", r, t)
			}
			for _, h := range l {
				if !want[h] {
					me := m.ByH[h]
					desc := "not alive"
					if me != nil {
						desc = fmt.Sprintf("comps %v target %v", listOf(me.Cs), me.Target)
					}
					return e.v(s, "leak-under-target", "relation filter (type %d, target %v) selects %v (%s)", r, t, h, desc)
				}
			}
			for h := range want {
				if !set[h] {
					return e.v(s, "target-census-missing", "relation filter (type %d, target %v) misses %v", r, t, h)
				}
			}
		}
	}
	return nil
}

// checkRegistry: the type registry ledger (C16).
func (e *Engine) checkRegistry(s *Sys) *Violation {
	w := s.W
	ids := ecs.ComponentIDs(w)
	if len(ids) > 1 {
		// the list handed out belongs to the caller: reversing it must not show in the next one (nor in another world's)
		first := append([]ecs.ID{}, ids...)
		for i, j := 0, len(ids)-1; i < j; i, j = i+1, j-1 {
			ids[i], ids[j] = ids[j], ids[i]
		}
		again := ecs.ComponentIDs(w)
		same := len(again) == len(first)
		for i := 0; same && i < len(first); i++ {
			same = again[i] == first[i]
		}
		if !same {
			return e.v(s, "registry", "ComponentIDs reports another list after the slice it returned before was reversed by the caller")
		}
		ids = first
	}
	if len(ids) != len(s.regOrder) {
		return e.v(s, "registry", "ComponentIDs has %d entries, %d types were registered", len(ids), len(s.regOrder))
	}
	for i, id := range ids {
		if int(idOf(id)) != i {
			return e.v(s, "registry", "ComponentIDs[%d] = %d: not dense in registration order", i, idOf(id))
		}
	}
	for i, k := range s.regOrder {
		id := ids[i]
		info, ok := ecs.ComponentInfo(w, id)
		if !ok {
			return e.v(s, "registry", "ComponentInfo(%d) not assigned", i)
		}
		if k >= 0 {
			if s.IDs[k] != id {
				return e.v(s, "registry", "live type %d registered as number %d but holds ID %d", k, i, idOf(s.IDs[k]))
			}
			if info.Type != s.Types[k] {
				return e.v(s, "registry", "ComponentInfo(%d).Type = %v, want %v", i, info.Type, s.Types[k])
			}
			if info.IsRelation != e.P.Types[k].IsRelation() {
				return e.v(s, "registry", "ComponentInfo(%d).IsRelation = %v for kind %s", i, info.IsRelation, e.P.Types[k].Kind)
			}
			if again := ecs.TypeID(w, s.Types[k]); again != id {
				return e.v(s, "registry", "TypeID of an already registered type changed from %d to %d", idOf(id), idOf(again))
			}
		} else {
			if info.Type != FillerType(-1-k) {
				return e.v(s, "registry", "ComponentInfo(%d).Type = %v, want filler %d", i, info.Type, -1-k)
			}
			if info.IsRelation {
				return e.v(s, "registry", "filler %d reported as relation", -1-k)
			}
		}
	}
	if len(ids) < ecs.MaskTotalBits {
		var next ecs.ID
		*(*uint8)(unsafe.Pointer(&next)) = uint8(len(ids))
		if _, ok := ecs.ComponentInfo(w, next); ok {
			return e.v(s, "registry", "ComponentInfo reports unassigned ID %d as assigned", len(ids))
		}
	}
	rids := ecs.ResourceIDs(w)
	if e.extraRes && s.Name == "primary" {
		rids = rids[:len(s.resOrder)]
	}
	if len(rids) != len(s.resOrder) {
		return alsoClass(e.v(s, "registry", "ResourceIDs has %d entries, %d registered", len(rids), len(s.resOrder)), "resource")
	}
	for n, i := range s.resOrder {
		if rids[n] != s.ResIDs[i] {
			return alsoClass(e.v(s, "registry", "ResourceIDs[%d] differs from the ID handed out at registration", n), "resource")
		}
		if tp, ok := ecs.ResourceType(w, rids[n]); !ok || tp != resTypeOf(i) {
			return alsoClass(e.v(s, "registry", "ResourceType of resource %d = %v", i, tp), "resource")
		}
		if again := ecs.ResourceTypeID(w, resTypeOf(i)); again != rids[n] {
			return alsoClass(e.v(s, "registry", "resource type %d got another ID on the second lookup", i), "resource")
		}
	}
	return nil
}

func evEqual(a, b *MEv) bool {
	return a.Ent == b.Ent && a.Added == b.Added && a.Removed == b.Removed && a.OldRel == b.OldRel &&
		a.NewRel == b.NewRel && a.OldTarget == b.OldTarget && a.Types == b.Types
}

func fmtEv(a *MEv) string {
	return fmt.Sprintf("{e=%d.%d +%v -%v rel %d->%d oldT=%d.%d types=%06b}", a.Ent.ID(), a.Ent.Generation(),
		listOf(a.Added), listOf(a.Removed), a.OldRel, a.NewRel, a.OldTarget.ID(), a.OldTarget.Generation(), a.Types)
}

// checkEvents compares the events received during this step with the model's prediction.
func (e *Engine) checkEvents(s *Sys, class string) *Violation {
	got := s.Events
	s.Events = nil
	if s.Name == "primary" {
		e.lastGot = got
		e.log.Str("events")
		for i := range got {
			g := &got[i]
			e.logEnt(g.Ent)
			e.log.U64(uint64(g.Added)<<32 | uint64(g.Removed))
			e.log.U64(uint64(g.Types)<<16 | uint64(uint8(g.OldRel+1))<<8 | uint64(uint8(g.NewRel+1)))
			e.logEnt(g.OldTarget)
		}
	}
	exp := append([]MEv{}, e.expEvents...)
	if e.P.Listener == "restricted" && e.P.Profile != "C12" {
		// the installed listener is restricted: it must receive exactly what the documented rule selects
		var sel []MEv
		for i := range exp {
			if ruleSelects(&exp[i], e.P.ListenerS, e.P.ListenerC) {
				sel = append(sel, exp[i])
			}
		}
		exp = sel
	}
	// per-event checks at delivery time
	for i := range got {
		g := &got[i]
		if g.Foreign {
			return e.v(s, class, "event %s mentions a component ID that was never registered as live type", fmtEv(&g.MEv))
		}
		if g.RetainedChanged {
			return e.v(s, class, "when event %s arrived, the relation ID that the previous event points to no longer was what it was at that event's delivery", fmtEv(&g.MEv))
		}
		if g.IDsDup || g.AddedIDs != g.Added || g.RemovedIDs != g.Removed {
			return e.v(s, class, "event %s: AddedIDs/RemovedIDs (%v/%v) disagree with the Added/Removed masks", fmtEv(&g.MEv), listOf(g.AddedIDs), listOf(g.RemovedIDs))
		}
		if g.Types&evRemoved != 0 {
			if !g.Locked {
				v := e.v(s, class, "removal event %s delivered with the world unlocked", fmtEv(&g.MEv))
				v.Also = append(v.Also, "lock-not-enforced") // C09: the window in which removal events are delivered is locked
				return v
			}
			if !g.AliveAtDelivery || !g.MaskOK || g.MaskAtDelivery != g.Removed {
				return e.v(s, class, "removal event %s: entity not inspectable at delivery (alive=%v mask=%v)", fmtEv(&g.MEv), g.AliveAtDelivery, listOf(g.MaskAtDelivery))
			}
			if g.OldRel >= 0 && g.TargetAtDelivery != g.OldTarget {
				return e.v(s, class, "removal event %s: target at delivery %v", fmtEv(&g.MEv), g.TargetAtDelivery)
			}
			if g.UnlockedAfterNested {
				return e.v(s, "lock-not-enforced", "inside the removal notification %s, opening and closing nested queries left the world unlocked", fmtEv(&g.MEv))
			}
			if g.ChaosEscaped {
				return e.v(s, "lock-not-enforced", "a structural call inside the removal notification %s was not refused", fmtEv(&g.MEv))
			}
		} else {
			if g.Locked != e.expLockedAt {
				return e.v(s, class, "event %s delivered with IsLocked=%v, expected %v", fmtEv(&g.MEv), g.Locked, e.expLockedAt)
			}
			me := e.M.ByH[g.Ent]
			if me != nil {
				if !g.AliveAtDelivery || !g.MaskOK || g.MaskAtDelivery != me.Cs {
					return e.v(s, class, "event %s: at delivery the entity has %v (alive=%v), after the change it should have %v", fmtEv(&g.MEv), listOf(g.MaskAtDelivery), g.AliveAtDelivery, listOf(me.Cs))
				}
				if g.NewRel >= 0 && g.TargetAtDelivery != me.Target {
					return e.v(s, class, "event %s: target at delivery %v, model %v", fmtEv(&g.MEv), g.TargetAtDelivery, me.Target)
				}
			}
		}
	}
	// values seen and written by the listener at delivery (in delivery order)
	for i := range got {
		g := &got[i]
		if g.ValT < 0 {
			continue
		}
		me := e.M.ByH[g.Ent]
		if me == nil || !me.Has(g.ValT) {
			continue // reported by the set comparison
		}
		if s.Name != "primary" {
			continue // the twin's listener does the same; its values are compared with the model like everything else
		}
		if want := me.Val[g.ValT]; string(g.ValAtDelivery) != string(want) {
			v := e.v(s, class, "event %s: at delivery component %d read %x, the operation had given it %x (events come after the change)", fmtEv(&g.MEv), g.ValT, g.ValAtDelivery, want)
			v.Also = append(v.Also, "value") // a Get pointer that does not show the value last written is C01's business too
			return v
		}
		me.Val[g.ValT] = append([]byte{}, g.Wrote...)
		e.touched[g.Ent] = true
		e.St.Probes["listener-wrote-value"]++
	}
	gl := make([]MEv, len(got))
	for i := range got {
		gl[i] = got[i].MEv
	}
	if s.Name == "primary" && e.P.EventReplica && e.P.Listener != "restricted" {
		e.applyReplica(got)
	}
	if len(gl) != len(exp) {
		return e.v(s, class, "%d events delivered, %d expected; got %s expected %s", len(gl), len(exp), fmtEvs(gl), fmtEvs(exp))
	}
	sortEvents(gl)
	sortEvents(exp)
	for i := range gl {
		if !evEqual(&gl[i], &exp[i]) {
			return e.v(s, class, "event mismatch: got %s expected %s", fmtEv(&gl[i]), fmtEv(&exp[i]))
		}
	}
	e.St.Probes["events-compared"] += len(gl)
	return nil
}

func fmtEvs(l []MEv) string {
	s := "["
	for i := range l {
		if i > 6 {
			s += " ..."
			break
		}
		s += fmtEv(&l[i])
	}
	return s + "]"
}

// applyReplica rebuilds a world state from the event stream alone.
func (e *Engine) applyReplica(got []Ev) {
	for i := range got {
		g := &got[i]
		switch {
		case g.Types&evCreated != 0:
			if _, ok := e.replica[g.Ent]; ok {
				e.replicaOK = false
			}
			e.replica[g.Ent] = &MEnt{H: g.Ent, Cs: g.Added, Target: g.TargetAtDelivery}
		case g.Types&evRemoved != 0:
			r, ok := e.replica[g.Ent]
			if !ok || r.Cs != g.Removed {
				e.replicaOK = false
			}
			delete(e.replica, g.Ent)
		default:
			r, ok := e.replica[g.Ent]
			if !ok {
				e.replicaOK = false
				continue
			}
			if r.Cs&g.Removed != g.Removed || r.Cs&g.Added != 0 {
				e.replicaOK = false
			}
			r.Cs = (r.Cs &^ g.Removed) | g.Added
			if g.Types&evTargChg != 0 {
				r.Target = g.TargetAtDelivery
				if g.NewRel < 0 {
					r.Target = ecs.Entity{}
				}
			}
		}
	}
}

// checkReplica compares the event-built replica with the model (only while no deferred events are pending).
func (e *Engine) checkReplica() *Violation {
	if !e.listening() || !e.P.EventReplica || e.pendingDef > 0 || e.P.Listener == "restricted" {
		return nil
	}
	if !e.replicaOK {
		return e.viol("event", nil, "event stream is not replayable (event for unknown entity, double creation, or removed set differs from replica)")
	}
	if len(e.replica) != len(e.M.Alive) {
		return e.viol("event", nil, "world rebuilt from events has %d entities, model %d", len(e.replica), len(e.M.Alive))
	}
	for _, me := range e.M.Alive {
		r := e.replica[me.H]
		if r == nil || r.Cs != me.Cs || r.Target != me.Target {
			return e.viol("event", nil, "world rebuilt from events differs for %v: replica %+v model comps %v target %v", me.H, r, listOf(me.Cs), me.Target)
		}
	}
	return nil
}
