module archesim

go 1.21

require github.com/mlange-42/arche v0.0.0

replace github.com/mlange-42/arche => /repo
