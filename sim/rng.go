package sim

// Deterministic PRNG: SplitMix64 for seeding, xoshiro256** for streams.
// Everything the simulator decides is derived from one integer (VERIF_SEED).

type SplitMix struct{ s uint64 }

func (m *SplitMix) Next() uint64 {
	m.s += 0x9E3779B97F4A7C15
	z := m.s
	z = (z ^ (z >> 30)) * 0xBF58476D1CE4E5B9
	z = (z ^ (z >> 27)) * 0x94D049BB133111EB
	return z ^ (z >> 31)
}

// Mix derives the seed of run k of a batch.
func Mix(seed uint64, k uint64) uint64 {
	m := SplitMix{s: seed ^ (k * 0xD1342543DE82EF95)}
	m.Next()
	return m.Next()
}

type Rng struct{ s [4]uint64 }

func NewRng(seed uint64, stream uint64) *Rng {
	m := SplitMix{s: seed ^ (stream+1)*0xA24BAED4963EE407}
	r := &Rng{}
	for i := range r.s {
		r.s[i] = m.Next()
	}
	return r
}

func rotl(x uint64, k uint) uint64 { return (x << k) | (x >> (64 - k)) }

func (r *Rng) U64() uint64 {
	res := rotl(r.s[1]*5, 7) * 9
	t := r.s[1] << 17
	r.s[2] ^= r.s[0]
	r.s[3] ^= r.s[1]
	r.s[1] ^= r.s[2]
	r.s[0] ^= r.s[3]
	r.s[2] ^= t
	r.s[3] = rotl(r.s[3], 45)
	return res
}

func (r *Rng) U32() uint32 { return uint32(r.U64() >> 32) }

// Intn returns a value in [0,n). n must be > 0.
func (r *Rng) Intn(n int) int {
	if n <= 1 {
		return 0
	}
	return int(r.U64() % uint64(n))
}

func (r *Rng) Bool(permille int) bool { return r.Intn(1000) < permille }

func (r *Rng) Pick(weights []int) int {
	tot := 0
	for _, w := range weights {
		tot += w
	}
	if tot <= 0 {
		return 0
	}
	x := r.Intn(tot)
	for i, w := range weights {
		if x < w {
			return i
		}
		x -= w
	}
	return len(weights) - 1
}

// Stream identifiers.
const (
	StreamPlan = iota
	StreamSched
	StreamOps
	StreamFault
	StreamGC
)

// fnv-style running digest used for logs and state hashes.
type Digest struct{ h uint64 }

func NewDigest() Digest { return Digest{h: 1469598103934665603} }

func (d *Digest) U64(v uint64) {
	for i := 0; i < 8; i++ {
		d.h ^= (v >> (8 * uint(i))) & 0xff
		d.h *= 1099511628211
	}
}
func (d *Digest) Bytes(b []byte) {
	d.U64(uint64(len(b)))
	for _, x := range b {
		d.h ^= uint64(x)
		d.h *= 1099511628211
	}
}
func (d *Digest) Str(s string) { d.Bytes([]byte(s)) }
func (d *Digest) Sum() uint64  { return d.h }
