package sim

import "sort"

// GenTrace draws a complete trace (plan + steps) from one seed.
func GenTrace(property string, seed uint64, thorough bool) *Trace {
	p := GenPlan(property, seed, thorough)
	tr := &Trace{Property: property, Seed: seed, Plan: p}
	sched := NewRng(seed, StreamSched)
	ops := NewRng(seed, StreamOps)
	gc := NewRng(seed, StreamGC)
	names := make([]string, 0, len(p.Weights))
	for k := range p.Weights {
		names = append(names, k)
	}
	sort.Strings(names)
	weights := make([]int, len(names))
	for i, n := range names {
		weights[i] = p.Weights[n]
	}
	for i := 0; i < p.Steps; i++ {
		st := Step{Op: names[sched.Pick(weights)]}
		st.A = make([]uint32, 24)
		for j := range st.A {
			st.A[j] = ops.U32()
		}
		if p.GCPermille > 0 && gc.Bool(p.GCPermille) {
			switch gc.Intn(4) {
			case 0:
				st.GC = 1
			case 1:
				st.GC = 2
			default:
				st.GC = 3 + gc.Intn(12)
			}
		}
		tr.Steps = append(tr.Steps, st)
	}
	return tr
}
