package sim

import "sort"

// GenTrace draws a complete trace (plan + steps) from one seed.
func GenTrace(property string, seed uint64, thorough bool) *Trace {
	p := GenPlan(property, seed, thorough)
	tr := &Trace{Property: property, Seed: seed, Plan: p}
	sched := NewRng(seed, StreamSched)
	ops := NewRng(seed, StreamOps)
	gc := NewRng(seed, StreamGC)
	names := make([]string, 0, len(p.Weights))
	for k := range p.Weights {
		names = append(names, k)
	}
	sort.Strings(names)
	weights := make([]int, len(names))
	for i, n := range names {
		weights[i] = p.Weights[n]
	}
	// the thousand-tables variant builds up without any mass removal and turns to batch operations at the very end
	buildUp := p.Wide == "tables" && p.EntityCap >= 2600
	late := make([]int, len(names))
	for i, n := range names {
		late[i] = weights[i]
		switch n {
		case "batch":
			late[i] = 40
			if buildUp {
				weights[i] = 0
			}
		case "rm":
			if buildUp {
				weights[i] = 0
			}
		case "new", "setrel":
			late[i] = 10
		}
	}
	// the many-tables variant grows first and then breathes: phases in which targets and children are removed alternate
	// with phases of growth, so that the number of tables behind one filter crosses 128 in both directions repeatedly
	breathing := p.Wide == "tables" && p.EntityCap >= 300 && p.EntityCap < 2600
	shrink := make([]int, len(names))
	for i, n := range names {
		shrink[i] = weights[i]
		switch n {
		case "rm":
			shrink[i] = 70
		case "new", "newbatch":
			shrink[i] = 3
		case "setrel":
			shrink[i] = 8
		}
	}
	for i := 0; i < p.Steps; i++ {
		w := weights
		if buildUp && i >= p.Steps-p.Steps/16 {
			w = late
		}
		if breathing && i >= p.Steps/2 && ((i-p.Steps/2)/60)%2 == 0 {
			w = shrink
		}
		st := Step{Op: names[sched.Pick(w)]}
		st.A = make([]uint32, 24)
		for j := range st.A {
			st.A[j] = ops.U32()
		}
		if p.GCPermille > 0 && gc.Bool(p.GCPermille) {
			switch gc.Intn(4) {
			case 0:
				st.GC = 1
			case 1:
				st.GC = 2
			default:
				st.GC = 3 + gc.Intn(12)
			}
		}
		tr.Steps = append(tr.Steps, st)
	}
	return tr
}
