package sim

import (
	"encoding/json"
	"fmt"
	"reflect"

	"github.com/mlange-42/arche/ecs"
)

// agedLoadProbe (C02 / C17, "any recycling depth"): the dump of the source world is loaded into two scratch worlds,
// once as it is and once with every generation shifted by the same offset D, chosen so that the most recycled ID
// sits 1-3 removals below the top of the 32 bit generation range - the state a world reaches after billions of
// create/remove cycles, which no bounded run reaches from a fresh world but which a saved game may well contain.
// Both worlds then execute the same burst of removals and creations. They have to stay isomorphic under
// "generation + D (mod 2^32)": same IDs issued, generations offset by D, the same Alive answers for every mapped
// handle, the same entity counts, and final dumps that differ by D only (IDs first issued after the load are not
// shifted: they start at generation 0 in both worlds). Comparing only through this mapping is
// what keeps the probe sound across the wrap of the generation counter: nothing here demands more of the aged world
// than the unchanged world does itself.
func (e *Engine) agedLoadProbe(c *cursor, js []byte) *Violation {
	type rawDump struct {
		Entities  [][2]uint32
		Alive     []uint32
		Next      uint32
		Available uint32
	}
	k := uint32(c.n(3))
	nOps := 8 + c.n(24)
	opSeed := uint64(c.raw())<<32 | uint64(c.raw())
	var rd rawDump
	if err := json.Unmarshal(js, &rd); err != nil || len(rd.Entities) < 2 {
		return nil // nothing to age (or reported by the caller's own round trip)
	}
	var maxGen uint32
	for _, en := range rd.Entities[1:] {
		if en[1] > maxGen {
			maxGen = en[1]
		}
	}
	d := (^uint32(0) - 1 - k) - maxGen
	aged := rd
	aged.Entities = append([][2]uint32{}, rd.Entities...)
	for i := 1; i < len(aged.Entities); i++ {
		aged.Entities[i][1] += d
	}
	mk := func(format string, args ...interface{}) *Violation {
		v := &Violation{Class: "handle", Step: e.step, World: "aged", Msg: fmt.Sprintf("after LoadEntities of the dump with all generations shifted by %d: ", d) + fmt.Sprintf(format, args...)}
		v.Also = append(v.Also, "dump-diff")
		return v
	}
	ent := func(id, gen uint32) ecs.Entity {
		var h ecs.Entity
		b, _ := json.Marshal([2]uint32{id, gen})
		if err := json.Unmarshal(b, &h); err != nil {
			panic("sim: cannot build a handle through JSON: " + err.Error())
		}
		return h
	}
	load := func(r *rawDump, capInc int) (w *ecs.World, msg string) {
		b, _ := json.Marshal(r)
		var dd ecs.EntityDump
		if err := json.Unmarshal(b, &dd); err != nil {
			return w, "dump does not unmarshal: " + err.Error()
		}
		nw := ecs.NewWorld(ecs.NewConfig().WithCapacityIncrement(capInc))
		w = &nw
		func() {
			defer func() {
				if r := recover(); r != nil {
					msg = fmt.Sprint(r)
				}
			}()
			w.LoadEntities(&dd)
		}()
		return w, msg
	}
	w0, m0 := load(&rd, 1+e.step%9)
	if m0 != "" {
		return nil // the plain load is the business of the caller's own checks
	}
	wa, ma := load(&aged, 1+e.step%9)
	if ma != "" {
		return mk("refused: %s", ma)
	}
	var v *Violation
	wrapped := 0
	func() {
		defer func() {
			if r := recover(); r != nil && v == nil {
				v = mk("panic: %v", r)
			}
		}()
		var alive []ecs.Entity // handles of the plain world
		q := w0.Query(ecs.All())
		for q.Next() {
			alive = append(alive, q.Entity())
		}
		var ledger []ecs.Entity // every handle seen, alive or dead
		ledger = append(ledger, alive...)
		for i, h := range e.M.Dead {
			if i > 20 {
				break
			}
			ledger = append(ledger, h)
		}
		// IDs that did not exist when the dump was taken start at generation 0 in both worlds
		nDump := uint32(len(rd.Entities))
		shift := func(id uint32) uint32 {
			if id < nDump {
				return d
			}
			return 0
		}
		up := func(h ecs.Entity) ecs.Entity { return ent(h.ID(), h.Generation()+shift(h.ID())) }
		agree := func(when string) bool {
			for _, h := range ledger {
				a0, aa := w0.Alive(h), wa.Alive(up(h))
				if a0 != aa {
					v = mk("%s: Alive(%v)=%v in the plain world, Alive(%v)=%v in the aged one", when, h, a0, up(h), aa)
					return false
				}
			}
			if u0, ua := w0.Stats().Entities.Used, wa.Stats().Entities.Used; u0 != ua {
				v = mk("%s: %d entities in the plain world, %d in the aged one", when, u0, ua)
				return false
			}
			return true
		}
		if !agree("right after loading") {
			return
		}
		rng := NewRng(opSeed, StreamOps)
		for i := 0; i < nOps; i++ {
			when := fmt.Sprintf("burst op %d", i)
			if len(alive) > 0 && rng.Intn(5) < 3 {
				// remove: the most recycled alive entity first, then random ones
				j := rng.Intn(len(alive))
				if i < 3 {
					for x, h := range alive {
						if h.Generation() > alive[j].Generation() {
							j = x
						}
					}
				}
				h := alive[j]
				alive[j] = alive[len(alive)-1]
				alive = alive[:len(alive)-1]
				if h.Generation()+shift(h.ID()) == ^uint32(0) {
					wrapped++
				}
				w0.RemoveEntity(h)
				wa.RemoveEntity(up(h))
			} else {
				h0 := w0.NewEntity()
				ha := wa.NewEntity()
				if ha.ID() != h0.ID() || ha.Generation() != h0.Generation()+shift(h0.ID()) {
					v = mk("%s: creation issued %v in the plain world and %v in the aged one (expected generation %d)", when, h0, ha, h0.Generation()+shift(h0.ID()))
					return
				}
				alive = append(alive, h0)
				ledger = append(ledger, h0)
			}
			if !agree(when) {
				return
			}
		}
		d0, da := normDump(w0.DumpEntities()), normDump(wa.DumpEntities())
		for i := 1; i < len(da.Entities); i++ {
			da.Entities[i][1] -= shift(uint32(i))
		}
		if !reflect.DeepEqual(d0, da) {
			v = mk("final dumps differ by more than the shift: %+v vs %+v", d0, da)
		}
	}()
	if v == nil {
		e.St.Probes["aged-generation-load-probe"]++
		e.St.Probes["aged-generation-counter-wrapped"] += wrapped
	}
	return v
}
