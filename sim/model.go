package sim

import (
	"sort"

	"github.com/mlange-42/arche/ecs"
)

// The reference model: deliberately naive. It never predicts handle values, iteration order or capacities.

type MEnt struct {
	H      ecs.Entity
	Cs     uint32   // set of live type indices
	Val    [][]byte // value per type index (nil when absent); pointer kinds hold the canary id (8 bytes LE)
	Target ecs.Entity
	pos    int
}

func (e *MEnt) Has(t int) bool { return e.Cs&(1<<uint(t)) != 0 }

type Model struct {
	Specs   []TypeSpec
	Sizes   []int  // value size per type (model representation)
	RelMask uint32 // live types that are relations
	Reg     uint32 // live types registered so far

	Alive  []*MEnt
	ByH    map[ecs.Entity]*MEnt
	ByID   map[uint32]*MEnt
	Dead   []ecs.Entity
	Issued map[ecs.Entity]bool

	Res    []interface{} // expected resource pointer per resource index (nil = absent)
	ResReg []bool

	Created, Removed int
	Targets          map[ecs.Entity]bool // every handle ever used as a non-zero target since reset
}

func NewModel(specs []TypeSpec, sizes []int, nRes int) *Model {
	m := &Model{Specs: specs, Sizes: sizes}
	for i, s := range specs {
		if s.IsRelation() {
			m.RelMask |= 1 << uint(i)
		}
	}
	m.Res = make([]interface{}, nRes)
	m.ResReg = make([]bool, nRes)
	m.clearEntities()
	return m
}

func (m *Model) clearEntities() {
	m.Alive = nil
	m.ByH = map[ecs.Entity]*MEnt{}
	m.ByID = map[uint32]*MEnt{}
	m.Dead = nil
	m.Issued = map[ecs.Entity]bool{}
	m.Targets = map[ecs.Entity]bool{}
	m.Created, m.Removed = 0, 0
}

func (m *Model) relOf(cs uint32) int {
	r := cs & m.RelMask
	if r == 0 {
		return -1
	}
	for i := 0; i < len(m.Specs); i++ {
		if r&(1<<uint(i)) != 0 {
			return i
		}
	}
	return -1
}

func popcount(x uint32) int {
	n := 0
	for x != 0 {
		x &= x - 1
		n++
	}
	return n
}

func setOf(ts []int) uint32 {
	var s uint32
	for _, t := range ts {
		s |= 1 << uint(t)
	}
	return s
}

func listOf(s uint32) []int {
	var out []int
	for i := 0; i < 32; i++ {
		if s&(1<<uint(i)) != 0 {
			out = append(out, i)
		}
	}
	return out
}

func hasDup(ts []int) bool {
	var s uint32
	for _, t := range ts {
		if s&(1<<uint(t)) != 0 {
			return true
		}
		s |= 1 << uint(t)
	}
	return false
}

func (m *Model) IsAlive(h ecs.Entity) bool { _, ok := m.ByH[h]; return ok }

// TargetOK: only an alive entity or the zero entity may be assigned as target.
func (m *Model) TargetOK(t ecs.Entity) bool { return t.IsZero() || m.IsAlive(t) }

func (m *Model) addEntity(h ecs.Entity, cs uint32, target ecs.Entity) *MEnt {
	e := &MEnt{H: h, Cs: cs, Val: make([][]byte, len(m.Specs)), Target: target, pos: len(m.Alive)}
	for _, t := range listOf(cs) {
		e.Val[t] = make([]byte, m.Sizes[t])
	}
	m.Alive = append(m.Alive, e)
	m.ByH[h] = e
	m.ByID[h.ID()] = e
	m.Issued[h] = true
	m.Created++
	if !target.IsZero() {
		m.Targets[target] = true
	}
	return e
}

func (m *Model) removeEntity(e *MEnt) {
	last := m.Alive[len(m.Alive)-1]
	m.Alive[e.pos] = last
	last.pos = e.pos
	m.Alive = m.Alive[:len(m.Alive)-1]
	delete(m.ByH, e.H)
	delete(m.ByID, e.H.ID())
	m.Dead = append(m.Dead, e.H)
	if len(m.Dead) > 400 {
		m.Dead = append([]ecs.Entity{}, m.Dead[len(m.Dead)-300:]...)
	}
	m.Removed++
}

// exchangeLegal implements the documented preconditions of a single-entity exchange-like call.
// Returns "" when legal, otherwise the illegal class.
func (m *Model) exchangeLegal(e *MEnt, add, rem []int, rel int, hasRel bool, target ecs.Entity) string {
	if len(add) == 0 && len(rem) == 0 {
		if hasRel {
			return "exchange-no-effect-with-relation"
		}
		return ""
	}
	if hasDup(add) {
		return "dup-add"
	}
	if hasDup(rem) {
		return "dup-rem"
	}
	as, rs := setOf(add), setOf(rem)
	if rs&^e.Cs != 0 {
		return "remove-absent"
	}
	if as&rs != 0 {
		return "add-and-remove-same"
	}
	if as&e.Cs != 0 {
		return "add-present"
	}
	res := (e.Cs &^ rs) | as
	if popcount(res&m.RelMask) > 1 {
		return "second-relation"
	}
	if hasRel {
		if res&(1<<uint(rel)) == 0 {
			return "relation-missing"
		}
		if m.RelMask&(1<<uint(rel)) == 0 {
			return "not-a-relation"
		}
		if !m.TargetOK(target) {
			return "dead-target"
		}
	}
	return ""
}

// MEv is a predicted / canonicalised entity event.
type MEv struct {
	Ent       ecs.Entity
	Added     uint32
	Removed   uint32
	OldRel    int
	NewRel    int
	OldTarget ecs.Entity
	Types     uint8
}

const (
	evCreated   = 1
	evRemoved   = 2
	evCompAdded = 4
	evCompRem   = 8
	evRelChg    = 16
	evTargChg   = 32
)

func evBits(created, removed bool, added, rem uint32, oldRel, newRel int, oldT, newT ecs.Entity) uint8 {
	var b uint8
	if created {
		b |= evCreated
	}
	if removed {
		b |= evRemoved
	}
	if added != 0 {
		b |= evCompAdded
	}
	if rem != 0 {
		b |= evCompRem
	}
	relChg := oldRel != newRel
	if relChg {
		b |= evRelChg
	}
	if relChg || oldT != newT {
		b |= evTargChg
	}
	return b
}

// applyExchange performs a (legal) exchange on the model and returns the predicted event (nil if nothing changed).
func (m *Model) applyExchange(e *MEnt, add, rem []int, rel int, hasRel bool, target ecs.Entity) *MEv {
	if len(add) == 0 && len(rem) == 0 {
		return nil
	}
	as, rs := setOf(add), setOf(rem)
	oldRel := m.relOf(e.Cs)
	oldT := e.Target
	newCs := (e.Cs &^ rs) | as
	newRel := m.relOf(newCs)
	var newT ecs.Entity
	if hasRel {
		newT = target
	} else if newRel >= 0 && newRel == oldRel && rs&(1<<uint(oldRel)) == 0 {
		newT = oldT
	}
	if newRel < 0 {
		newT = ecs.Entity{}
	}
	for _, t := range rem {
		e.Val[t] = nil
	}
	for _, t := range add {
		e.Val[t] = make([]byte, m.Sizes[t])
	}
	e.Cs = newCs
	e.Target = newT
	if !newT.IsZero() {
		m.Targets[newT] = true
	}
	return &MEv{Ent: e.H, Added: as, Removed: rs, OldRel: oldRel, NewRel: newRel, OldTarget: oldT,
		Types: evBits(false, false, as, rs, oldRel, newRel, oldT, newT)}
}

func (m *Model) creationEvent(e *MEnt) MEv {
	r := m.relOf(e.Cs)
	return MEv{Ent: e.H, Added: e.Cs, OldRel: -1, NewRel: r,
		Types: evBits(true, false, e.Cs, 0, -1, r, ecs.Entity{}, e.Target) | relCreateBits(r)}
}

// On creation and removal the relation/target bits are set whenever a relation component is involved,
// also with a zero target (the relation component itself appears / disappears).
func relCreateBits(r int) uint8 {
	if r >= 0 {
		return evRelChg | evTargChg
	}
	return 0
}

func (m *Model) removalEvent(e *MEnt) MEv {
	r := m.relOf(e.Cs)
	return MEv{Ent: e.H, Removed: e.Cs, OldRel: r, NewRel: -1, OldTarget: e.Target,
		Types: evBits(false, true, 0, e.Cs, r, -1, e.Target, ecs.Entity{}) | relCreateBits(r)}
}

func sortEvents(evs []MEv) {
	sort.SliceStable(evs, func(i, j int) bool {
		a, b := evs[i], evs[j]
		if a.Ent.ID() != b.Ent.ID() {
			return a.Ent.ID() < b.Ent.ID()
		}
		if a.Ent.Generation() != b.Ent.Generation() {
			return a.Ent.Generation() < b.Ent.Generation()
		}
		if a.Types != b.Types {
			return a.Types < b.Types
		}
		if a.Added != b.Added {
			return a.Added < b.Added
		}
		return a.Removed < b.Removed
	})
}

// Children returns the model's entities carrying relation rel with target t.
func (m *Model) Children(rel int, t ecs.Entity) map[ecs.Entity]bool {
	out := map[ecs.Entity]bool{}
	for _, e := range m.Alive {
		if e.Has(rel) && e.Target == t {
			out[e.H] = true
		}
	}
	return out
}
