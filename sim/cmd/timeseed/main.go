// Command timeseed generates the trace of one run seed and reports how long it takes (diagnostic tool).
package main

import (
	"encoding/json"
	"fmt"
	"os"
	"strconv"
	"time"

	"archesim"
)

func main() {
	if len(os.Args) < 3 {
		fmt.Println("usage: timeseed <property> <run seed> [thorough]")
		os.Exit(2)
	}
	seed, _ := strconv.ParseUint(os.Args[2], 10, 64)
	tr := sim.GenTrace(os.Args[1], seed, len(os.Args) > 3)
	p := *tr.Plan
	p.Types = nil
	p.Weights = nil
	p.Dispatch = nil
	b, _ := json.Marshal(p)
	fmt.Printf("plan: %s types=%d dispatch=%d\n", b, len(tr.Plan.Types), len(tr.Plan.Dispatch))
	t0 := time.Now()
	v, e := sim.RunTrace(tr, false)
	fmt.Printf("took %v, violation=%v, steps=%d\n", time.Since(t0), v != nil, len(tr.Steps))
	for k, n := range e.St.Probes {
		if len(k) > 4 && k[:4] == "max:" {
			fmt.Printf("  %s = %d\n", k, n)
		}
	}
	if v != nil {
		fmt.Printf("  violation: %s also=%v world=%s props=%v: %s\n", v.Class, v.Also, v.World, sim.Attribute(tr, v), v.Msg)
	}
}
