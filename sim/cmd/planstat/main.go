// Command planstat prints how often each plan mode is drawn for a property (diagnostic tool).
package main

import (
	"fmt"
	"os"
	"sort"
	"strconv"

	"archesim"
)

func main() {
	prop := os.Args[1]
	n, _ := strconv.Atoi(os.Args[2])
	thorough := len(os.Args) > 3
	cnt := map[string]int{}
	for s := 0; s < n; s++ {
		p := sim.GenPlan(prop, sim.Mix(1, uint64(s)), thorough)
		cnt["wide="+p.Wide]++
		switch {
		case p.EntityCap >= 17000:
			cnt["entities>=17000"]++
			if cnt["entities>=17000"] <= 3 {
				fmt.Println("mega plan at run seed", sim.Mix(1, uint64(s)))
			}
		case p.EntityCap >= 5000:
			cnt["entities>=5000"]++
		case p.EntityCap >= 2600 && p.Wide == "tables":
			cnt["tables-1k"]++
		case p.EntityCap >= 300 && p.Wide == "tables":
			cnt["tables-many"]++
		}
		if p.Fat {
			cnt["fat"]++
		}
		if p.HugeComp {
			cnt["hugeComp"]++
		}
		if p.TargetsOnly {
			cnt["targetsOnly"]++
		}
		if p.ListenerRes {
			cnt["listenerRes"]++
		}
		if p.ManySubs {
			cnt["manySubs"]++
		}
		if p.FillToLimit {
			cnt["fillToLimit"]++
		}
		cnt["listener="+p.Listener]++
	}
	var ks []string
	for k := range cnt {
		ks = append(ks, k)
	}
	sort.Strings(ks)
	for _, k := range ks {
		fmt.Printf("%-22s %6d  (1 in %.0f)\n", k, cnt[k], float64(n)/float64(cnt[k]))
	}
}
