package main

import (
	"fmt"
	"os"
	"runtime"
	"runtime/debug"

	"github.com/mlange-42/arche/ecs"
)

type Payload struct {
	ID  uint64
	Pay [6]uint64
}
type Holder struct {
	P *Payload
	S []uint64
}
type Tag struct{ X uint64 }

var sink [][]byte

func main() {
	debug.SetGCPercent(1)
	w := ecs.NewWorld(ecs.NewConfig().WithCapacityIncrement(2))
	hid := ecs.ComponentID[Holder](&w)
	tid := ecs.ComponentID[Tag](&w)
	const N = 2000
	ents := make([]ecs.Entity, N)
	ids := make([]uint64, N)
	next := uint64(1)
	mk := func(c uint64) *Holder {
		return &Holder{P: &Payload{ID: c, Pay: [6]uint64{c, c + 1, c + 2, c + 3, c + 4, c + 5}}, S: []uint64{c, c * 3, c * 7}}
	}
	for i := range ents {
		ents[i] = w.NewEntity(hid)
		h := (*Holder)(w.Get(ents[i], hid))
		*h = *mk(next)
		ids[i] = next
		next++
	}
	// churn goroutines to keep the collector busy
	for g := 0; g < 3; g++ {
		go func() {
			var local [][]byte
			for {
				local = append(local, make([]byte, 256))
				if len(local) > 2000 {
					local = local[:0]
				}
			}
		}()
	}
	bad := 0
	for round := 0; round < 400; round++ {
		for i := range ents {
			// move between tables: barrier-less raw copies of pointer-containing rows
			if w.Has(ents[i], tid) {
				w.Remove(ents[i], tid)
			} else {
				w.Add(ents[i], tid)
			}
			if i%7 == 0 {
				// refresh the value with new heap objects (only referenced from the table)
				h := (*Holder)(w.Get(ents[i], hid))
				*h = *mk(next)
				ids[i] = next
				next++
			}
		}
		for i := range ents {
			h := (*Holder)(w.Get(ents[i], hid))
			c := ids[i]
			if h.P == nil || h.P.ID != c || h.P.Pay[5] != c+5 || len(h.S) != 3 || h.S[0] != c || h.S[2] != c*7 {
				bad++
				if bad < 5 {
					fmt.Printf("round %d entity %d: corrupt (want %d): P=%+v S=%v\n", round, i, c, h.P, h.S)
				}
			}
		}
		if bad > 0 {
			fmt.Println("CORRUPTION after round", round, "bad =", bad)
			os.Exit(1)
		}
	}
	runtime.KeepAlive(sink)
	fmt.Println("no corruption observed")
}
