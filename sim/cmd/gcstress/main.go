// Command gcstress is the supplementary, NOT deterministic probe of C14: entities whose components reference heap
// objects reachable only through them are moved between tables, swap-removed, retargeted and batch-moved while the
// Go collector runs concurrently under heavy pressure (GOGC=1, allocation churn on other goroutines). The operation
// sequence is a function of the seed; the collector's schedule is not controlled (no seam exists for it), so a
// failure is reproduced statistically, not exactly. See DESIGN.md, C14.
//
// Exit 0: no corruption seen. Exit 1: "CORRUPTION" line. A fatal runtime error ("found pointer to free object")
// kills the process with exit status 2.
package main

import (
	"flag"
	"fmt"
	"os"
	"reflect"
	"runtime/debug"
	"time"

	"github.com/mlange-42/arche/ecs"
)

type Payload struct {
	ID  uint64
	Pay [6]uint64
}
type Holder struct {
	P   *Payload
	S   []uint64
	Str string
}
type Holder2 struct {
	Pad uint32
	M   map[uint64]uint64
	P   *Payload
}

// pointers that reflection-based field walks can miss: the same field name promoted from two embedded structs (not
// visible as a promoted field), a promoted field shadowed by an outer one, a pointer inside an embedded pointer-free
// looking array of structs
type imgB struct{ Pix *Payload }
type maskB struct{ Pix *Payload }
type HolderAmb struct {
	imgB
	maskB
}
type baseB struct{ Data *Payload }
type HolderShadow struct {
	baseB
	Data int64
}
type Tag struct{ X uint64 }
type Label struct{}
type ChildOf struct {
	ecs.Relation
	P *Payload
}

type rng struct{ s uint64 }

func (r *rng) next() uint64 {
	r.s += 0x9E3779B97F4A7C15
	z := r.s
	z = (z ^ (z >> 30)) * 0xBF58476D1CE4E5B9
	z = (z ^ (z >> 27)) * 0x94D049BB133111EB
	return z ^ (z >> 31)
}
func (r *rng) n(k int) int { return int(r.next() % uint64(k)) }

func payload(c uint64) *Payload {
	return &Payload{ID: c, Pay: [6]uint64{c, c + 1, c + 2, c + 3, c + 4, c + 5}}
}
func okPayload(p *Payload, c uint64) bool {
	return p != nil && p.ID == c && p.Pay[0] == c && p.Pay[5] == c+5
}

func main() {
	seed := flag.Uint64("seed", 1, "")
	seconds := flag.Int("seconds", 6, "")
	wide := flag.Bool("wide", false, "all entities carry 66 filler components: pointer columns beyond the 64th")
	flag.Parse()
	debug.SetGCPercent(1)
	r := &rng{s: *seed}
	w := ecs.NewWorld(ecs.NewConfig().WithCapacityIncrement(1 + r.n(4)))
	labelID := ecs.ComponentID[Label](&w) // zero-sized component with the lowest ID
	// wide tables (-wide): all entities carry 66 small filler components with lower IDs, so that the
	// pointer-carrying columns sit beyond the 64th column of their tables
	var fillers []ecs.ID
	if *wide {
		for i := 0; i < 66; i++ {
			fillers = append(fillers, ecs.TypeID(&w, reflect.ArrayOf(i+1, reflect.TypeOf(uint8(0)))))
		}
	}
	hid := ecs.ComponentID[Holder](&w)
	ambID := ecs.ComponentID[HolderAmb](&w)
	shID := ecs.ComponentID[HolderShadow](&w)
	tid := ecs.ComponentID[Tag](&w)
	h2id := ecs.ComponentID[Holder2](&w)
	cid := ecs.ComponentID[ChildOf](&w)

	for g := 0; g < 3; g++ {
		go func() {
			var local [][]byte
			for {
				local = append(local, make([]byte, 192))
				if len(local) > 3000 {
					local = local[:0]
				}
			}
		}()
	}

	type rec struct {
		e          ecs.Entity
		h, h2, rel uint64 // expected canaries (0 = component absent)
		amb, sh    uint64
	}
	var ents []*rec
	var parents []ecs.Entity
	for i := 0; i < 8; i++ {
		parents = append(parents, w.NewEntity())
	}
	next := uint64(1)
	fresh := func() uint64 { next++; return next }
	setH := func(x *rec) {
		c := fresh()
		*(*Holder)(w.Get(x.e, hid)) = Holder{P: payload(c), S: []uint64{c, c * 3, c * 7}, Str: fmt.Sprint("s", c)}
		x.h = c
	}
	setH2 := func(x *rec) {
		c := fresh()
		*(*Holder2)(w.Get(x.e, h2id)) = Holder2{Pad: uint32(c), M: map[uint64]uint64{c: c + 1}, P: payload(c)}
		x.h2 = c
	}
	setRel := func(x *rec) {
		c := fresh()
		(*ChildOf)(w.Get(x.e, cid)).P = payload(c)
		x.rel = c
	}
	setAmb := func(x *rec) {
		c := fresh()
		a := (*HolderAmb)(w.Get(x.e, ambID))
		a.imgB.Pix, a.maskB.Pix = payload(c), payload(c+1000000007)
		x.amb = c
	}
	setSh := func(x *rec) {
		c := fresh()
		a := (*HolderShadow)(w.Get(x.e, shID))
		a.baseB.Data, a.Data = payload(c), int64(c)
		x.sh = c
	}
	check := func(round int) {
		for i, x := range ents {
			if x.amb != 0 {
				a := (*HolderAmb)(w.Get(x.e, ambID))
				if !okPayload(a.imgB.Pix, x.amb) || !okPayload(a.maskB.Pix, x.amb+1000000007) {
					fmt.Printf("CORRUPTION round %d entity #%d %v: HolderAmb does not hold canary %d\n", round, i, x.e, x.amb)
					os.Exit(1)
				}
			}
			if x.sh != 0 {
				a := (*HolderShadow)(w.Get(x.e, shID))
				if !okPayload(a.baseB.Data, x.sh) || a.Data != int64(x.sh) {
					fmt.Printf("CORRUPTION round %d entity #%d %v: HolderShadow does not hold canary %d\n", round, i, x.e, x.sh)
					os.Exit(1)
				}
			}
			if x.h != 0 {
				h := (*Holder)(w.Get(x.e, hid))
				if !okPayload(h.P, x.h) || len(h.S) != 3 || h.S[0] != x.h || h.S[2] != x.h*7 || h.Str != fmt.Sprint("s", x.h) {
					fmt.Printf("CORRUPTION round %d entity #%d %v: Holder does not hold canary %d: P=%+v S=%v Str=%q\n", round, i, x.e, x.h, h.P, h.S, h.Str)
					os.Exit(1)
				}
			}
			if x.h2 != 0 {
				h := (*Holder2)(w.Get(x.e, h2id))
				if !okPayload(h.P, x.h2) || len(h.M) != 1 || h.M[x.h2] != x.h2+1 || h.Pad != uint32(x.h2) {
					fmt.Printf("CORRUPTION round %d entity #%d %v: Holder2 does not hold canary %d\n", round, i, x.e, x.h2)
					os.Exit(1)
				}
			}
			if x.rel != 0 {
				if !okPayload((*ChildOf)(w.Get(x.e, cid)).P, x.rel) {
					fmt.Printf("CORRUPTION round %d entity #%d %v: ChildOf does not hold canary %d\n", round, i, x.e, x.rel)
					os.Exit(1)
				}
			}
		}
	}
	var pool []*Holder
	type keptPtr struct {
		p    *Payload
		want uint64
	}
	var kept []keptPtr
	deadline := time.Now().Add(time.Duration(*seconds) * time.Second)
	ops := 0
	for round := 0; time.Now().Before(deadline); round++ {
		for k := 0; k < 400; k++ {
			ops++
			switch op := r.n(10); {
			case op < 2 || len(ents) < 50:
				if len(ents) > 1500 {
					continue
				}
				x := &rec{e: w.NewEntity(append(append([]ecs.ID{}, fillers...), labelID, hid)...)}
				setH(x)
				ents = append(ents, x)
			case op < 4: // move between tables
				x := ents[r.n(len(ents))]
				if w.Has(x.e, tid) {
					w.Remove(x.e, tid)
				} else {
					w.Add(x.e, tid)
				}
			case op < 5 && r.n(3) == 0: // pointer components whose pointers hide behind embedded structs
				x := ents[r.n(len(ents))]
				if r.n(2) == 0 {
					if x.amb == 0 {
						w.Add(x.e, ambID)
						setAmb(x)
					} else {
						w.Remove(x.e, ambID)
						x.amb = 0
					}
				} else {
					if x.sh == 0 {
						w.Add(x.e, shID)
						setSh(x)
					} else {
						w.Remove(x.e, shID)
						x.sh = 0
					}
				}
			case op < 5: // second pointer component
				x := ents[r.n(len(ents))]
				if x.h2 == 0 {
					w.Add(x.e, h2id)
					setH2(x)
				} else {
					w.Remove(x.e, h2id)
					x.h2 = 0
				}
			case op < 6: // relation with a pointer payload, retargeting = move between relation tables
				x := ents[r.n(len(ents))]
				if x.rel == 0 {
					w.Relations().Exchange(x.e, []ecs.ID{cid}, nil, cid, parents[r.n(len(parents))])
					setRel(x)
				} else {
					w.Relations().Set(x.e, cid, parents[r.n(len(parents))])
				}
			case op < 8: // swap-remove: remove a row that is (mostly) not the last
				i := r.n(len(ents))
				w.RemoveEntity(ents[i].e)
				ents[i] = ents[len(ents)-1]
				ents = ents[:len(ents)-1]
			case op < 9: // refresh a value
				x := ents[r.n(len(ents))]
				switch r.n(3) {
				case 0: // new heap objects written through the component pointer
					setH(x)
				case 1: // an OLD value object handed to World.Set and dropped: afterwards only the table references it
					if len(pool) == 0 {
						for i := 0; i < 64; i++ {
							c := fresh()
							pool = append(pool, &Holder{P: payload(c), S: []uint64{c, c * 3, c * 7}, Str: fmt.Sprint("s", c)})
						}
					}
					h := pool[len(pool)-1]
					pool[len(pool)-1] = nil
					pool = pool[:len(pool)-1]
					x.h = h.P.ID
					w.Set(x.e, hid, h)
				default: // a pointer read from a component, the component removed, the pointer stored elsewhere
					if x.h2 != 0 {
						p := (*Holder2)(w.Get(x.e, h2id)).P
						want := x.h2
						w.Remove(x.e, h2id)
						x.h2 = 0
						kept = append(kept, keptPtr{p, want})
						if len(kept) > 200 {
							kept = kept[100:]
						}
					}
				}
			default: // batch moves
				if r.n(2) == 0 {
					f := ecs.All(hid).Without(tid)
					w.Batch().Add(&f, tid)
				} else {
					w.Batch().Remove(ecs.All(hid, tid), tid)
				}
			}
		}
		check(round)
		for _, k := range kept {
			if !okPayload(k.p, k.want) {
				fmt.Printf("CORRUPTION round %d: object %d kept by the caller after its component was removed is corrupt: %+v\n", round, k.want, k.p)
				os.Exit(1)
			}
		}
	}
	check(-1)
	fmt.Printf("no corruption observed: %d operations, %d entities\n", ops, len(ents))
}
