// Command archesim is the deterministic simulator for the arche properties: supervisor, worker and replay.
package main

import (
	"bufio"
	"context"
	"encoding/json"
	"flag"
	"fmt"
	"os"
	"os/exec"
	"path/filepath"
	"runtime/debug"
	"sort"
	"strings"
	"sync"
	"time"

	sim "archesim"
)

func main() {
	if len(os.Args) < 2 {
		fmt.Fprintln(os.Stderr, "usage: archesim run|worker|replay|gen ...")
		os.Exit(2)
	}
	switch os.Args[1] {
	case "run":
		os.Exit(cmdRun(os.Args[2:]))
	case "worker":
		os.Exit(cmdWorker(os.Args[2:]))
	case "replay":
		os.Exit(cmdReplay(os.Args[2:]))
	case "special":
		os.Exit(cmdSpecial(os.Args[2:]))
	default:
		fmt.Fprintln(os.Stderr, "unknown command", os.Args[1])
		os.Exit(2)
	}
}

type workerMsg struct {
	T      string         `json:"t"`
	K      uint64         `json:"k,omitempty"`
	Seed   uint64         `json:"seed,omitempty"`
	Class  string         `json:"class,omitempty"`
	Props  []string       `json:"props,omitempty"`
	Msg    string         `json:"msg,omitempty"`
	Replay string         `json:"replay,omitempty"`
	Facts  []string       `json:"facts,omitempty"`
	Sum    *workerSummary `json:"sum,omitempty"`
}

type workerSummary struct {
	Runs        int               `json:"runs"`
	Steps       int               `json:"steps"`
	LegalStruct int               `json:"legalStruct"`
	Skipped     int               `json:"skipped"`
	Suspect     int               `json:"suspect"`
	Ops         map[string]int    `json:"ops"`
	Faults      map[string]int    `json:"faults"`
	Probes      map[string]int    `json:"probes"`
	Shapes      []uint64          `json:"shapes"`
	Digests     []uint64          `json:"digests"`
	Samples     []json.RawMessage `json:"samples"`
	Foreign     map[string]int    `json:"foreign"`
}

func cmdWorker(args []string) int {
	fs := flag.NewFlagSet("worker", flag.ExitOnError)
	prop := fs.String("prop", "C01", "")
	seed := fs.Uint64("seed", 1, "")
	idx := fs.Int("idx", 0, "")
	n := fs.Int("n", 1, "")
	runs := fs.Int("runs", 100, "")
	thorough := fs.Bool("thorough", false, "")
	deadline := fs.Int64("deadline", 0, "unix seconds; 0 = none")
	outdir := fs.String("out", "/verif/replays", "")
	build := fs.String("build", "default", "")
	maxViol := fs.Int("maxviol", 3, "")
	fs.Parse(args)

	if *prop == "C14" {
		// The deterministic part of C14 places every collection itself (operation boundaries and hook points);
		// the collector's own concurrent schedule is the business of the separate gc-stress probe.
		debug.SetGCPercent(-1)
	}
	out := bufio.NewWriter(os.Stdout)
	emit := func(m workerMsg) {
		b, _ := json.Marshal(m)
		out.Write(b)
		out.WriteByte('\n')
		out.Flush()
	}
	sum := &workerSummary{Ops: map[string]int{}, Faults: map[string]int{}, Probes: map[string]int{}, Foreign: map[string]int{}}
	shapes := map[uint64]struct{}{}
	digests := map[uint64]struct{}{}
	nviol := 0
	for k := *idx; k < *runs; k += *n {
		if *deadline > 0 && time.Now().Unix() >= *deadline {
			break
		}
		rs := sim.Mix(*seed, uint64(k))
		emit(workerMsg{T: "start", K: uint64(k), Seed: rs})
		tr := sim.GenTrace(*prop, rs, *thorough)
		tr.Build = *build
		keep := k < 2
		v, e := sim.RunTrace(tr, keep)
		sum.Runs++
		st := e.St
		sum.Steps += st.Steps
		sum.LegalStruct += st.LegalStruct
		sum.Skipped += st.Skipped
		sum.Suspect += st.Suspect
		for a, b := range st.Ops {
			sum.Ops[a] += b
		}
		for a, b := range st.Faults {
			sum.Faults[a] += b
		}
		for a, b := range st.Probes {
			if a == "max-lock-depth" || strings.HasPrefix(a, "max:") {
				if b > sum.Probes[a] {
					sum.Probes[a] = b
				}
				continue
			}
			sum.Probes[a] += b
		}
		if len(shapes) < 300000 {
			for h := range st.Shapes {
				shapes[h] = struct{}{}
			}
		}
		if sim.Relevant(*prop, st) && len(digests) < 300000 {
			digests[e.RunDigest()] = struct{}{}
		}
		if keep && v == nil {
			s := map[string]interface{}{"seed": rs, "plan": tr.Plan, "ops": e.Concrete}
			b, _ := json.Marshal(s)
			sum.Samples = append(sum.Samples, b)
		}
		if v == nil {
			continue
		}
		// violation: attribute first; trips that belong to other properties are only counted
		pre := sim.Attribute(tr, v)
		if !contains(pre, *prop) && *prop == "C11" && tr.Plan.Listener == "all" && tr.Plan.Lens == "" {
			// C11 looks at the rest of the run through its own lens: the world rebuilt from the delivered events
			// must equal the world, whatever else went wrong
			lt := sim.CloneTrace(tr)
			lt.Plan.Lens = "C11"
			if lv, _ := sim.RunTrace(lt, false); lv != nil && sim.DirectlyAttributed(lv, "C11") {
				tr, v = lt, lv
				pre = sim.Attribute(tr, v)
			}
		}
		if !contains(pre, *prop) {
			key := v.Class + "->" + strings.Join(pre, "+")
			sum.Foreign[key]++
			if sum.Foreign[key] == 1 {
				emit(workerMsg{T: "foreign", K: uint64(k), Seed: rs, Class: v.Class, Props: pre, Msg: v.Msg})
			}
			continue
		}
		// the unminimised trace is written out first: should this process be killed while minimising (watchdog), the
		// supervisor still has a replayable violation
		os.MkdirAll(*outdir, 0o755)
		path := filepath.Join(*outdir, fmt.Sprintf("%s-%s-%d.json", *prop, *build, rs))
		{
			full := *tr
			full.Violation = v
			full.Property = *prop
			b, _ := json.MarshalIndent(&full, "", " ")
			os.WriteFile(path, b, 0o644)
			emit(workerMsg{T: "found", K: uint64(k), Seed: rs, Class: v.Class, Props: sim.Attribute(tr, v), Msg: v.Msg, Replay: path, Facts: sim.FactsOf(tr, v)})
		}
		// minimise, attribute again on the minimised trace, write the replay file
		dl := time.Now().Add(60 * time.Second)
		if *deadline > 0 {
			if lim := time.Unix(*deadline, 0).Add(20 * time.Second); lim.Before(dl) {
				dl = lim // the supervisor's watchdog fires 45 s after the batch deadline
			}
		}
		var keepAttr func(*sim.Trace, *sim.Violation) bool
		if !sim.DirectlyAttributed(v, *prop) {
			keepAttr = func(c *sim.Trace, cv *sim.Violation) bool { return contains(sim.Attribute(c, cv), *prop) }
		}
		small := sim.Shrink(tr, v.Signature(), 4000, dl, keepAttr)
		v2, e2 := sim.RunTrace(small, true)
		if v2 == nil || v2.Signature() != v.Signature() {
			small = tr
			v2, e2 = sim.RunTrace(small, true)
		}
		if v2 == nil {
			os.Remove(path)
			emit(workerMsg{T: "unconfirmed", K: uint64(k), Seed: rs, Class: v.Class, Msg: v.Msg})
			continue
		}
		props := sim.Attribute(small, v2)
		small.Violation = v2
		small.Concrete = e2.Concrete
		small.Property = *prop
		b, _ := json.MarshalIndent(small, "", " ")
		os.WriteFile(path, b, 0o644)
		emit(workerMsg{T: "viol", K: uint64(k), Seed: rs, Class: v2.Class, Props: props, Msg: v2.Msg, Replay: path, Facts: sim.FactsOf(small, v2)})
		nviol++
		if nviol >= *maxViol {
			break
		}
	}
	for h := range shapes {
		sum.Shapes = append(sum.Shapes, h)
	}
	for h := range digests {
		sum.Digests = append(sum.Digests, h)
	}
	emit(workerMsg{T: "done", Sum: sum})
	return 0
}

// runsIntoCrash replays a trace file in a child process and reports whether the child died with a fatal runtime
// error inside arche code.
func runsIntoCrash(self, path string, limit time.Duration) (bool, string) {
	if self == "" {
		var err error
		self, err = os.Executable()
		if err != nil {
			return false, ""
		}
	}
	ctx, cancel := context.WithTimeout(context.Background(), limit)
	defer cancel()
	cmd := exec.CommandContext(ctx, self, "replay", "-q", "-child", path)
	out, err := cmd.CombinedOutput()
	text := string(out)
	if ctx.Err() == context.DeadlineExceeded {
		return true, fmt.Sprintf("hang: the run did not finish within %v (a run takes milliseconds)", limit)
	}
	if err == nil || !strings.Contains(text, "github.com/mlange-42/arche/") {
		return false, ""
	}
	if !strings.Contains(text, "fatal error") && !strings.Contains(text, "SIGSEGV") && !strings.Contains(text, "unexpected fault address") {
		return false, ""
	}
	for _, l := range strings.Split(text, "\n") {
		if strings.HasPrefix(l, "fatal error") || strings.Contains(l, "unexpected fault") || strings.Contains(l, "SIGSEGV") {
			return true, l
		}
	}
	return true, "fatal runtime error"
}

// crashReport turns "worker died in run k" into a confirmed, minimised crash violation (or nil).
func crashReport(bin, prop, build string, rs uint64, thorough bool, outdir string) *workerMsg {
	tr := sim.GenTrace(prop, rs, thorough)
	tr.Build = build
	tr.Property = prop
	tr.Violation = &sim.Violation{Class: "crash", Msg: "the process died with a fatal runtime error in arche code"}
	os.MkdirAll(outdir, 0o755)
	path := filepath.Join(outdir, fmt.Sprintf("%s-%s-%d.json", prop, build, rs))
	write := func(t *sim.Trace) {
		b, _ := json.MarshalIndent(t, "", " ")
		os.WriteFile(path, b, 0o644)
	}
	write(tr)
	crashed, detail := runsIntoCrash(bin, path, 60*time.Second)
	if !crashed {
		os.Remove(path)
		return nil
	}
	// out-of-process ddmin over the steps (bounded)
	cur := tr
	budget := 60
	limit := 60 * time.Second
	if strings.HasPrefix(detail, "hang") {
		budget, limit = 24, 6*time.Second
	}
	tmp := path + ".cand"
	tryc := func(steps []sim.Step) bool {
		if budget <= 0 {
			return false
		}
		budget--
		c := *cur
		c.Steps = steps
		b, _ := json.Marshal(&c)
		os.WriteFile(tmp, b, 0o644)
		ok, _ := runsIntoCrash(bin, tmp, limit)
		return ok
	}
	for chunk := len(cur.Steps) / 2; chunk >= 1 && budget > 0; chunk /= 2 {
		for i := 0; i+chunk <= len(cur.Steps) && budget > 0; {
			cand := append(append([]sim.Step{}, cur.Steps[:i]...), cur.Steps[i+chunk:]...)
			if tryc(cand) {
				c := *cur
				c.Steps = cand
				cur = &c
			} else {
				i += chunk
			}
		}
	}
	os.Remove(tmp)
	cur.Violation.Msg = detail
	if strings.HasPrefix(detail, "hang") {
		cur.Violation.Class = "hang"
	}
	write(cur)
	return &workerMsg{T: "viol", Seed: rs, Class: "crash", Props: []string{prop}, Msg: detail, Replay: path, Facts: []string{"class:crash"}}
}

func contains(l []string, x string) bool {
	for _, y := range l {
		if y == x {
			return true
		}
	}
	return false
}

func cmdReplay(args []string) int {
	fs := flag.NewFlagSet("replay", flag.ExitOnError)
	quiet := fs.Bool("q", false, "")
	child := fs.Bool("child", false, "run in this process even if the trace is recorded as crashing")
	fs.Parse(args)
	if fs.NArg() < 1 {
		fmt.Fprintln(os.Stderr, "usage: archesim replay <file>")
		return 2
	}
	b, err := os.ReadFile(fs.Arg(0))
	if err != nil {
		fmt.Fprintln(os.Stderr, err)
		return 2
	}
	var probe struct {
		Property string `json:"property"`
		Build    string `json:"build"`
	}
	json.Unmarshal(b, &probe)
	if probe.Property == "C19" && strings.HasPrefix(probe.Build, "special") {
		return sim.ReplayC19File(fs.Arg(0), *quiet)
	}
	if strings.HasPrefix(probe.Build, "special-") && probe.Property != "C13" {
		return sim.ReplaySpecialFile(fs.Arg(0), probe.Property, *quiet)
	}
	var tr sim.Trace
	if err := json.Unmarshal(b, &tr); err != nil {
		fmt.Fprintln(os.Stderr, err)
		return 2
	}
	if tr.Property == "C13" && strings.HasPrefix(tr.Build, "special") {
		return sim.ReplaySpecial(&tr, *quiet)
	}
	want := tr.Violation
	if want != nil && (want.Class == "crash" || want.Class == "hang") && !*child {
		// the recorded failure kills the process (fatal runtime error in unsafe code): run it in a child
		crashed, detail := runsIntoCrash("", fs.Arg(0), 60*time.Second)
		if crashed {
			fmt.Printf("replay: the process died: %s\n", detail)
			fmt.Printf("VIOLATION property=%s replay=%s\n", tr.Property, fs.Arg(0))
			return 1
		}
		fmt.Println("replay: no crash")
		return 0
	}
	tr.Violation = nil
	v, e := sim.RunTrace(&tr, true)
	if !*quiet {
		for i, c := range e.Concrete {
			fmt.Printf("  %3d %s\n", i, c)
		}
	}
	if v == nil {
		fmt.Println("replay: no violation")
		return 0
	}
	props := sim.Attribute(&tr, v)
	fmt.Printf("replay: %s properties=%v\n", v.Error(), props)
	if want != nil && want.Class != v.Class {
		fmt.Printf("replay: class differs from the recorded one (%s)\n", want.Class)
	}
	fmt.Printf("VIOLATION property=%s replay=%s\n", tr.Property, fs.Arg(0))
	return 1
}

type knownFinding struct {
	Property string   `json:"property"`
	Status   string   `json:"status"` // known | fixed
	Commit   string   `json:"commit,omitempty"`
	Class    string   `json:"class"`
	Match    []string `json:"match"` // all must appear among the violation's facts
	Text     string   `json:"text"`
}

func loadKnown(path string) []knownFinding {
	b, err := os.ReadFile(path)
	if err != nil {
		return nil
	}
	var l []knownFinding
	if err := json.Unmarshal(b, &l); err != nil {
		fmt.Fprintln(os.Stderr, "known_findings.json does not parse:", err)
		os.Exit(2)
	}
	return l
}

func matchKnown(l []knownFinding, prop string, m workerMsg) *knownFinding {
	for i := range l {
		k := &l[i]
		if k.Status != "known" || k.Property != prop || k.Class != m.Class {
			continue
		}
		ok := true
		for _, want := range k.Match {
			found := false
			for _, f := range m.Facts {
				if f == want {
					found = true
				}
			}
			if !found {
				ok = false
			}
		}
		if ok {
			return k
		}
	}
	return nil
}

func cmdRun(args []string) int {
	fs := flag.NewFlagSet("run", flag.ExitOnError)
	prop := fs.String("prop", "C01", "")
	tier := fs.String("tier", "quick", "")
	seed := fs.Uint64("seed", 1, "")
	runs := fs.Int("runs", 0, "0 = tier default")
	workers := fs.Int("workers", 16, "")
	budget := fs.Int("budget", 0, "seconds; 0 = tier default")
	bins := fs.String("bins", "/verif/bin/archesim", "comma separated binaries (builds), runs are split between them")
	evidence := fs.String("evidence", "", "evidence file to write")
	level := fs.String("level", "exploration", "")
	known := fs.String("known", "/verif/known_findings.json", "")
	outdir := fs.String("out", "/verif/replays", "")
	fs.Parse(args)

	thorough := *tier == "thorough"
	if *runs == 0 {
		*runs = 16000
		if thorough {
			*runs = 400000
		}
	}
	if *budget == 0 {
		*budget = 40
		if thorough {
			*budget = 600
		}
	}
	start := time.Now()
	deadline := start.Add(time.Duration(*budget) * time.Second).Unix()
	binList := strings.Split(*bins, ",")
	kf := loadKnown(*known)

	type agg struct {
		sync.Mutex
		sum           workerSummary
		shapes        map[uint64]struct{}
		digests       map[uint64]struct{}
		viols         []workerMsg
		unconf        []workerMsg
		crashes       []string
		lastStart     map[int]workerMsg
		lastFound     map[int]workerMsg
		foreignNotes  []string
		crashReports  int
		skippedDeaths int
	}
	a := &agg{shapes: map[uint64]struct{}{}, digests: map[uint64]struct{}{}, lastStart: map[int]workerMsg{}, lastFound: map[int]workerMsg{}}
	a.sum.Ops, a.sum.Faults, a.sum.Probes, a.sum.Foreign = map[string]int{}, map[string]int{}, map[string]int{}, map[string]int{}

	var wg sync.WaitGroup
	for i := 0; i < *workers; i++ {
		wg.Add(1)
		go func(i int) {
			defer wg.Done()
			bin := binList[i%len(binList)]
			build := "default"
			if strings.Contains(filepath.Base(bin), "tiny") {
				build = "tiny"
			}
			if strings.Contains(filepath.Base(bin), "126") {
				build = "go126"
			}
			wargs := []string{"worker", "-prop", *prop, "-seed", fmt.Sprint(*seed), "-idx", fmt.Sprint(i), "-n", fmt.Sprint(*workers),
				"-runs", fmt.Sprint(*runs), "-deadline", fmt.Sprint(deadline), "-out", *outdir, "-build", build}
			if thorough {
				wargs = append(wargs, "-thorough")
			}
			cmd := exec.Command(bin, wargs...)
			cmd.Env = append(os.Environ(), "GOMEMLIMIT=1500MiB", "GOMAXPROCS=2")
			// watchdog: a worker checks the deadline between runs only, so a run that never ends would block the check
			hung := false
			watchdog := time.AfterFunc(time.Duration(*budget+45)*time.Second, func() {
				hung = true
				if cmd.Process != nil {
					cmd.Process.Kill()
				}
			})
			defer watchdog.Stop()
			stdout, _ := cmd.StdoutPipe()
			var stderr strings.Builder
			cmd.Stderr = &stderr
			if err := cmd.Start(); err != nil {
				a.Lock()
				a.crashes = append(a.crashes, fmt.Sprintf("worker %d did not start: %v", i, err))
				a.Unlock()
				return
			}
			sc := bufio.NewScanner(stdout)
			sc.Buffer(make([]byte, 1<<20), 1<<28)
			gotDone := false
			for sc.Scan() {
				var m workerMsg
				if err := json.Unmarshal(sc.Bytes(), &m); err != nil {
					continue
				}
				a.Lock()
				switch m.T {
				case "start":
					a.lastStart[i] = m
				case "found":
					a.lastFound[i] = m
				case "viol":
					a.viols = append(a.viols, m)
					a.lastFound[i] = workerMsg{}
				case "unconfirmed":
					a.unconf = append(a.unconf, m)
					a.lastFound[i] = workerMsg{}
				case "foreign":
					if len(a.foreignNotes) < 20 {
						a.foreignNotes = append(a.foreignNotes, fmt.Sprintf("note: foreign trip class=%s props=%v seed=%d: %s", m.Class, m.Props, m.Seed, m.Msg))
					}
				case "done":
					gotDone = true
					s := m.Sum
					a.sum.Runs += s.Runs
					a.sum.Steps += s.Steps
					a.sum.LegalStruct += s.LegalStruct
					a.sum.Skipped += s.Skipped
					a.sum.Suspect += s.Suspect
					for k, v := range s.Ops {
						a.sum.Ops[k] += v
					}
					for k, v := range s.Faults {
						a.sum.Faults[k] += v
					}
					for k, v := range s.Probes {
						if k == "max-lock-depth" || strings.HasPrefix(k, "max:") {
							if v > a.sum.Probes[k] {
								a.sum.Probes[k] = v
							}
							continue
						}
						a.sum.Probes[k] += v
					}
					for k, v := range s.Foreign {
						a.sum.Foreign[k] += v
					}
					for _, h := range s.Shapes {
						a.shapes[h] = struct{}{}
					}
					for _, h := range s.Digests {
						a.digests[h] = struct{}{}
					}
					if len(a.sum.Samples) < 3 {
						a.sum.Samples = append(a.sum.Samples, s.Samples...)
					}
				}
				a.Unlock()
			}
			err := cmd.Wait()
			if !gotDone {
				a.Lock()
				ls := a.lastStart[i]
				tail := stderr.String()
				if len(tail) > 6000 {
					tail = tail[:4500] + "\n[...]\n" + tail[len(tail)-1500:]
				}
				a.Unlock()
				var rep *workerMsg
				a.Lock()
				if lf := a.lastFound[i]; lf.Replay != "" && lf.K == ls.K {
					// killed while minimising a violation it had already found and written out: report that one as it is
					a.viols = append(a.viols, lf)
					a.Unlock()
					return
				}
				a.crashReports++
				doReport := a.crashReports <= 2
				a.Unlock()
				if doReport && ls.Seed != 0 && (hung || strings.Contains(stderr.String(), "github.com/mlange-42/arche/")) {
					rep = crashReport(bin, *prop, build, ls.Seed, thorough, *outdir)
					if rep != nil && hung {
						rep.Class = "hang"
					}
				}
				a.Lock()
				if rep != nil {
					a.viols = append(a.viols, *rep)
				} else if !doReport {
					a.skippedDeaths++
				} else {
					a.crashes = append(a.crashes, fmt.Sprintf("worker %d (%s) died (%v) in run k=%d seed=%d\n%s", i, build, err, ls.K, ls.Seed, tail))
				}
				a.Unlock()
			}
		}(i)
	}
	wg.Wait()
	wall := time.Since(start).Seconds()

	exit := 0
	nViol := 0
	foreign := a.sum.Foreign
	for _, n := range a.foreignNotes {
		fmt.Fprintln(os.Stderr, n)
	}
	var knownLines []string
	seenKnown := map[string]bool{}
	for _, m := range a.viols {
		mine := false
		for _, p := range m.Props {
			if p == *prop {
				mine = true
			}
		}
		if !mine {
			foreign[m.Class+"->"+strings.Join(m.Props, "+")]++
			fmt.Fprintf(os.Stderr, "note: foreign trip class=%s props=%v replay=%s: %s\n", m.Class, m.Props, m.Replay, m.Msg)
			continue
		}
		if k := matchKnown(kf, *prop, m); k != nil {
			line := fmt.Sprintf("KNOWN-FINDING: property=%s %s", *prop, k.Text)
			if !seenKnown[line] {
				seenKnown[line] = true
				knownLines = append(knownLines, line)
			}
			continue
		}
		if nViol >= 3 {
			// enough: further violations of this batch are counted, not replayed
			nViol++
			continue
		}
		// confirm in a fresh process
		confirmed := false
		for try := 0; try < 3 && !confirmed; try++ {
			rb := binList[0]
			for _, b := range binList {
				base := filepath.Base(b)
				switch {
				case strings.Contains(m.Replay, "-tiny-") && strings.Contains(base, "tiny"),
					strings.Contains(m.Replay, "-go126-") && strings.Contains(base, "126"),
					strings.Contains(m.Replay, "-default-") && !strings.Contains(base, "tiny") && !strings.Contains(base, "126"):
					rb = b
				}
			}
			c := exec.Command(rb, "replay", "-q", m.Replay)
			outb, _ := c.CombinedOutput()
			if strings.Contains(string(outb), "VIOLATION property=") {
				confirmed = true
			}
		}
		if !confirmed {
			a.unconf = append(a.unconf, m)
			continue
		}
		nViol++
		fmt.Printf("violation: class=%s seed=%d %s\n", m.Class, m.Seed, m.Msg)
		fmt.Printf("VIOLATION property=%s replay=%s\n", *prop, m.Replay)
		exit = 1
	}
	for _, l := range knownLines {
		fmt.Println(l)
	}
	for _, c := range a.crashes {
		fmt.Fprintln(os.Stderr, "CRASH:", c)
	}
	if len(a.crashes) > 0 && exit == 0 {
		exit = 2
	}
	if len(a.unconf) > 0 && exit == 0 {
		for _, m := range a.unconf {
			fmt.Fprintf(os.Stderr, "UNCONFIRMED: class=%s seed=%d %s\n", m.Class, m.Seed, m.Msg)
		}
		exit = 2
	}
	if a.sum.Runs == 0 && exit == 0 {
		fmt.Fprintln(os.Stderr, "no runs completed")
		exit = 2
	}

	if *evidence != "" {
		writeEvidence(*evidence, *prop, *tier, *seed, *level, &a.sum, len(a.shapes), len(a.digests), wall, nViol, foreign, knownLines, binList)
	}
	fmt.Printf("%s %s: %d runs, %d steps, %d distinct states, %d violations, %.1fs\n", *prop, *tier, a.sum.Runs, a.sum.Steps, len(a.shapes), nViol, wall)
	return exit
}

func writeEvidence(path, prop, tier string, seed uint64, level string, s *workerSummary, shapes, digests int, wall float64, nViol int,
	foreign map[string]int, known []string, bins []string) {
	faults := map[string]int{}
	illegal := map[string]int{}
	for k, v := range s.Faults {
		if strings.HasPrefix(k, "illegal:") {
			illegal[strings.TrimPrefix(k, "illegal:")] = v
		} else {
			faults[k] = v
		}
	}
	warnings := []string{}
	for _, p := range sim.ExpectedProbes(prop) {
		if s.Probes[p]+s.Faults[p] == 0 {
			warnings = append(warnings, "probe never fired: "+p)
		}
	}
	sort.Strings(warnings)
	samples := []interface{}{}
	for _, r := range s.Samples {
		var x interface{}
		json.Unmarshal(r, &x)
		samples = append(samples, x)
	}
	if len(samples) == 0 {
		samples = append(samples, "no clean sample run was recorded in this batch")
	}
	perHour := 0.0
	if wall > 0 {
		perHour = float64(s.Runs) / wall * 3600
	}
	ev := map[string]interface{}{
		"property_id": prop,
		"tier":        tier,
		"seed":        seed,
		"level":       level,
		"wall_s":      wall,
		"violations":  nViol,
		"coverage": map[string]interface{}{
			"evaluations":         s.Runs,
			"distinct_nontrivial": digests,
			"rule": "one evaluation = one simulated run (plan + schedule + faults drawn from mix(VERIF_SEED,k)); non-trivial = the run executed legal structural steps and the fault/oracle kind this property depends on actually fired (" +
				sim.RelevanceRule(prop) + "); distinct = distinct digests of the executed concrete operation sequence incl. returned handles and outcomes",
			"samples":                 samples,
			"simulated_steps":         s.Steps,
			"legal_structural_steps":  s.LegalStruct,
			"skipped_steps":           s.Skipped,
			"runs_per_hour":           perHour,
			"seeds_per_hour":          perHour,
			"distinct_hidden_states":  shapes,
			"ops_executed":            s.Ops,
			"faults_fired":            faults,
			"illegal_classes_fired":   illegal,
			"probes":                  s.Probes,
			"suspect_runs":            s.Suspect,
			"foreign_trips":           foreign,
			"known_findings_reported": known,
			"reach_warnings":          warnings,
			"builds":                  bins,
			"real_components":         []string{"github.com/mlange-42/arche/ecs", "ecs/event", "ecs/stats", "filter", "listener", "generic (C18 profile)"},
			"stubbed_components":      []string{},
			"simulated_time":          "there is no clock in arche; simulated time is the step counter (simulated_steps)",
		},
		"assumptions": []string{
			"seeded search, not enumeration: a clean batch is evidence, not proof",
			"worlds of <=250 entities, <=13 live component types (IDs anywhere in range), <=600 steps per run",
			"the reference model and the documented-legality rules in /verif/sim are correct",
		},
	}
	b, _ := json.MarshalIndent(ev, "", " ")
	os.MkdirAll(filepath.Dir(path), 0o755)
	os.WriteFile(path, b, 0o644)
}

func cmdSpecial(args []string) int { return sim.RunSpecial(args) }
