package sim

import (
	"reflect"
	"unsafe"

	"github.com/mlange-42/arche/ecs"
	"github.com/mlange-42/arche/generic"
)

// Call-site shapes for C14: the component value is a composite literal at the call site, so the compiler is free
// to keep it (and what it points to) on the stack if it can prove that the callee does not let it escape. The
// helpers are noinline so that each is its own frame, which is clobbered after the call returns.
// The build step records the compiler's escape verdict for this file (go build -gcflags=-m) as evidence that
// non-escaping sites are really exercised.

//go:noinline
func setLiteralA(w *ecs.World, e ecs.Entity, id ecs.ID, c uint64) unsafe.Pointer {
	return w.Set(e, id, &PtrA{P: &Canary{ID: c, Pay: canaryPay(c)}, S: []uint64{c, c + 1, c + 2}, Str: canaryStr(c), M: map[uint64]uint64{c: c + 1}})
}

//go:noinline
func setLiteralB(w *ecs.World, e ecs.Entity, id ecs.ID, c uint64) unsafe.Pointer {
	return w.Set(e, id, &PtrB{Pad: uint32(c), P: &Canary{ID: c, Pay: canaryPay(c)}, S: []uint64{c, c + 1, c + 2}})
}

//go:noinline
func setLiteralC(w *ecs.World, e ecs.Entity, id ecs.ID, c uint64) unsafe.Pointer {
	return w.Set(e, id, &PtrC{Str: canaryStr(c), P: &Canary{ID: c, Pay: canaryPay(c)}})
}

//go:noinline
func setLiteralRel(w *ecs.World, e ecs.Entity, id ecs.ID, c uint64) unsafe.Pointer {
	return w.Set(e, id, &PtrRel{P: &Canary{ID: c, Pay: canaryPay(c)}})
}

//go:noinline
func mapSetLiteralB(w *ecs.World, e ecs.Entity, c uint64) unsafe.Pointer {
	m := generic.NewMap[PtrB](w)
	return unsafe.Pointer(m.Set(e, &PtrB{Pad: uint32(c), P: &Canary{ID: c, Pay: canaryPay(c)}, S: []uint64{c, c + 1, c + 2}}))
}

//go:noinline
func mapSetLiteralC(w *ecs.World, e ecs.Entity, c uint64) unsafe.Pointer {
	m := generic.NewMap[PtrC](w)
	return unsafe.Pointer(m.Set(e, &PtrC{Str: canaryStr(c), P: &Canary{ID: c, Pay: canaryPay(c)}}))
}

//go:noinline
func assignLiteralB(w *ecs.World, e ecs.Entity, id ecs.ID, c uint64) {
	w.Assign(e, ecs.Component{ID: id, Comp: &PtrB{Pad: uint32(c), P: &Canary{ID: c, Pay: canaryPay(c)}, S: []uint64{c, c + 1, c + 2}}})
}

//go:noinline
func assignLiteralC(w *ecs.World, e ecs.Entity, id ecs.ID, c uint64) {
	w.Assign(e, ecs.Component{ID: id, Comp: &PtrC{Str: canaryStr(c), P: &Canary{ID: c, Pay: canaryPay(c)}}})
}

//go:noinline
func newWithLiteralB(w *ecs.World, id ecs.ID, c uint64) ecs.Entity {
	return w.NewEntityWith(ecs.Component{ID: id, Comp: &PtrB{Pad: uint32(c), P: &Canary{ID: c, Pay: canaryPay(c)}, S: []uint64{c, c + 1, c + 2}}})
}

//go:noinline
func builderLiteralC(w *ecs.World, id ecs.ID, c uint64) ecs.Entity {
	return ecs.NewBuilderWith(w, ecs.Component{ID: id, Comp: &PtrC{Str: canaryStr(c), P: &Canary{ID: c, Pay: canaryPay(c)}}}).New()
}

// literalSet dispatches on the static pointer type of live type tp. generic selects the generic.Map.Set path.
func literalSet(w *ecs.World, tp reflect.Type, e ecs.Entity, id ecs.ID, c uint64, useGeneric bool) (unsafe.Pointer, bool) {
	switch tp {
	case ptrTypes[0]:
		return setLiteralA(w, e, id, c), true
	case ptrTypes[1]:
		if useGeneric {
			return mapSetLiteralB(w, e, c), true
		}
		return setLiteralB(w, e, id, c), true
	case ptrTypes[2]:
		if useGeneric {
			return mapSetLiteralC(w, e, c), true
		}
		return setLiteralC(w, e, id, c), true
	case ptrRelType:
		return setLiteralRel(w, e, id, c), true
	}
	return nil, false // PtrD has no literal shape: the heap path is used
}
