package sim

import (
	"fmt"
	"runtime"
	"sort"

	"github.com/mlange-42/arche/ecs"
)

// Step is one scheduler decision: an operation name plus raw choice values. All meaning is assigned by the
// interpreter against the current model state, so every subsequence of steps is still a valid run and
// expected outcomes are never stored.
type Step struct {
	Op string   `json:"op"`
	A  []uint32 `json:"a"`
	GC int      `json:"gc,omitempty"` // 0 none, 1 before, 2 after, n>=3: at the (n-2)th hook point inside the call
}

type Trace struct {
	Property string `json:"property"`
	Build    string `json:"build"`
	Seed     uint64 `json:"seed"`
	Plan     *Plan  `json:"plan"`
	Steps    []Step `json:"steps"`
	// filled in for reports
	Violation *Violation `json:"violation,omitempty"`
	Concrete  []string   `json:"concrete,omitempty"`
}

type Violation struct {
	Class string   `json:"class"`
	Step  int      `json:"step"`
	Msg   string   `json:"msg"`
	Op    *COp     `json:"op,omitempty"`
	World string   `json:"world,omitempty"` // which world (primary / shadow)
	Facts []string `json:"facts,omitempty"`
	Also  []string `json:"also,omitempty"` // further violation classes the same observation establishes
}

func (v *Violation) Error() string { return fmt.Sprintf("[%s] step %d: %s", v.Class, v.Step, v.Msg) }

type cursor struct {
	a []uint32
	i int
}

func (c *cursor) n(k int) int {
	v := 0
	if k > 1 && c.i < len(c.a) {
		v = int(c.a[c.i] % uint32(k))
	}
	c.i++
	return v
}
func (c *cursor) raw() uint32 {
	var v uint32
	if c.i < len(c.a) {
		v = c.a[c.i]
	}
	c.i++
	return v
}
func (c *cursor) permille(p int) bool { return c.n(1000) < p }

// OpenQ is the model-side record of an open query (one lock).
type OpenQ struct {
	Batch    bool
	Seq      []ecs.Entity // plain: full reference sequence; batch: entities discovered so far
	ExpSet   map[ecs.Entity]bool
	Pos      int
	At       map[int]ecs.Entity
	Deferred []MEv
	HasDef   bool
	Slot     int
	Cached   bool
	NewTypes uint32 // batch: components that must be accessible on every entity of the query
	Rel      int
	// LateCount: Count() has not been called on this query yet; it is asked for the first time after some Next
	LateCount bool
}

type Shadow struct {
	S    *Sys
	Kind string // fresh | load | restricted | dispatch
}

type Stats struct {
	Steps       int
	Ops         map[string]int
	Faults      map[string]int
	Probes      map[string]int
	Skipped     int
	Suspect     int
	LegalStruct int
	Shapes      map[uint64]struct{}
}

func newStats() *Stats {
	return &Stats{Ops: map[string]int{}, Faults: map[string]int{}, Probes: map[string]int{}, Shapes: map[uint64]struct{}{}}
}

type Engine struct {
	P       *Plan
	S       *Sys
	M       *Model
	Slots   []*FilterSpec
	Reg     []bool // slot registered
	Open    []*OpenQ
	Shadows []*Shadow
	St      *Stats

	step             int
	expEvents        []MEv
	prelude          []COp // the first single creations of the run
	replayQ          []COp // ... to be repeated after a reset
	expLockedAt      bool
	touched          map[ecs.Entity]bool
	replica          map[ecs.Entity]*MEnt
	replicaOK        bool
	lensActive       bool       // see Plan.Lens
	lensFirst        *Violation // the mismatch that started lens mode
	pendingDef       int        // open batch queries with deferred events
	canarySeq        uint64
	valSeq           uint64
	suspect          bool
	log              *Digest
	Concrete         []string
	keepConcrete     bool
	unregOrig        map[int]ecs.Filter
	lastUnregSlot    int
	hadUnreg         bool
	gcCount          int
	gcAt             int
	resetCount       int
	noTwin           bool
	dispatchAdded    []bool
	weak             *weakLedger
	lastShadow       map[*Shadow]Result
	lastGot          []Ev
	rmOrder          []ecs.Entity
	forceQ           bool
	lastBorderReset  int
	extraRes         bool // resource registry was filled up by the limit test (ledger check of the order is skipped)
	pending          *pendingDump
	pendingRetention bool
	noHook           bool // never touch the package-level hook (several engines on real goroutines)
}

func NewEngine(p *Plan) *Engine {
	e := &Engine{P: p, St: newStats(), touched: map[ecs.Entity]bool{}, replica: map[ecs.Entity]*MEnt{}, replicaOK: true}
	e.S = NewSys("primary", p)
	sizes := make([]int, len(p.Types))
	for i, t := range p.Types {
		if t.IsPtr() {
			sizes[i] = 8
		} else {
			sizes[i] = int(e.S.Types[i].Size())
		}
	}
	e.M = NewModel(p.Types, sizes, p.ResTypes)
	for k, t := range p.Types {
		if !t.Late {
			e.M.Reg |= 1 << uint(k)
		}
	}
	e.S.spawnOn = p.ListenerSpawn
	if p.Listener == "restricted" && p.Profile != "C12" {
		e.S.InstallRestrictedPrimary(Sub{S: p.ListenerS, C: p.ListenerC}, p.ListenerChaos)
	} else if p.Listener != "none" && p.Listener != "" {
		e.S.InstallListener(p.ListenerChaos)
	}
	d := NewDigest()
	e.log = &d
	// slot 0 is always All()
	e.addSlot(&FilterSpec{Kind: "all"})
	e.weak = newWeakLedger()
	if p.Profile == "C14" && e.weak.enabled() {
		canaryHook = e.weak.track
	} else if p.Profile == "C14" {
		canaryHook = nil
	}
	return e
}

func (e *Engine) listening() bool { return e.S.lis != nil }

func (e *Engine) logEnt(h ecs.Entity) { e.log.U64(uint64(h.ID())<<32 | uint64(h.Generation())) }

func (e *Engine) logEnts(tag string, l []ecs.Entity) {
	e.log.Str(tag)
	e.log.U64(uint64(len(l)))
	for _, h := range l {
		e.logEnt(h)
	}
}

// ObsDigest is the digest of everything observable the run produced, in order: outcomes, returned handles,
// every query's visiting order, every event with content, counts, and the final entity dump (C13).
func (e *Engine) ObsDigest() uint64 { return e.log.Sum() }

func (e *Engine) addSlot(spec *FilterSpec) {
	e.Slots = append(e.Slots, spec)
	e.Reg = append(e.Reg, false)
	e.S.AddSlot(spec)
	for _, sh := range e.Shadows {
		if sh.Kind != "load" {
			sh.S.AddSlot(spec)
		}
	}
}

func (e *Engine) regTypes() []int {
	var out []int
	for k := range e.P.Types {
		if e.M.Reg&(1<<uint(k)) != 0 {
			out = append(out, k)
		}
	}
	return out
}

func (e *Engine) locked() bool { return len(e.Open) > 0 }

func (e *Engine) viol(class string, op *COp, format string, args ...interface{}) *Violation {
	return &Violation{Class: class, Step: e.step, Msg: fmt.Sprintf(format, args...), Op: op, World: "primary"}
}

var structuralName = map[string]bool{"new": true, "newbatch": true, "rm": true, "xchg": true, "setrel": true, "batch": true, "reset": true, "regtype": true}

func structural(op *COp) bool {
	switch op.Kind {
	case "new", "newbatch", "rm", "xchg", "setrel", "batch", "reset", "regtype", "load":
		return true
	}
	return false
}

// issue applies a concrete op. why is the illegal class according to the model ("" = legal).
// Returns ok=true when the call was legal and succeeded, so the caller must commit its effects to the model.
func (e *Engine) issue(op *COp, why string) (Result, bool, *Violation) {
	lockedNow := e.locked() && structural(op)
	expectPanic := why != "" || lockedNow
	if e.keepConcrete {
		e.Concrete = append(e.Concrete, describe(op, why, lockedNow))
	}
	e.St.Ops[op.Kind]++
	if why != "" {
		e.St.Faults["illegal-arg"]++
		e.St.Faults["illegal:"+why]++
	}
	if lockedNow {
		e.St.Faults["locked-call"]++
	}
	var statsBefore uint64
	if expectPanic {
		statsBefore = e.statsDigest()
	}
	e.S.SpawnOK = len(e.Shadows) == 0 && len(e.M.Alive)+2 < e.P.EntityCap
	res := e.S.Apply(op)
	e.S.SpawnOK = false
	if v := e.commitSpawned(op); v != nil {
		return res, false, v
	}
	if e.S.DetachSeen > 0 {
		e.St.Probes["listener-detached-itself-in-last-removal-notification"] += e.S.DetachSeen
		e.S.DetachSeen = 0
	}
	if e.S.BuilderReused > 0 {
		e.St.Probes["long-lived-builder-reused"] += e.S.BuilderReused
		e.S.BuilderReused = 0
	}
	if e.S.NestedBatches > 0 {
		e.St.Probes["batch-call-inside-notification"] += e.S.NestedBatches
		e.S.NestedBatches = 0
	}
	if e.S.KeptSeen > 0 {
		e.St.Probes["query-kept-open-beyond-removal-notification"] += e.S.KeptSeen
		e.S.KeptSeen = 0
	}
	if e.S.KeptTrouble != "" {
		v := e.viol("lock-not-enforced", op, "%s %s: %s", op.Kind, op.Variant, e.S.KeptTrouble)
		e.S.KeptTrouble = ""
		return res, false, v
	}
	if expectPanic && res.Panicked {
		if after := e.statsDigest(); after != statsBefore {
			if lockedNow {
				// every structural entry point checks the lock before doing anything, so World.Stats() must not move
				v := e.viol("state-after-locked-call", op, "%s %s was refused on a locked world but World.Stats() changed (tables/nodes/memory were created before the refusal)", op.Kind, op.Variant)
				return res, false, v
			}
			e.St.Probes["stats-moved-after-rejected-illegal-call"]++
		}
	}
	e.log.Str(op.Kind)
	e.log.Str(op.Variant)
	e.log.U64(b2u(res.Panicked))
	e.log.U64(uint64(res.Count))
	e.logEnt(res.Ent)
	if expectPanic && !res.Panicked {
		if lockedNow {
			return res, false, e.viol("lock-not-enforced", op, "%s %s succeeded on a locked world (%d open queries)", op.Kind, op.Variant, len(e.Open))
		}
		cl := "no-panic"
		if op.Kind == "rm" && why == "dead-entity" {
			// a stale handle was accepted: whoever owns the ID now was removed instead (C02: a handle that was never
			// removed is dead, alive count is off)
			v := e.viol(cl, op, "%s %s: illegal (%s) but did not panic", op.Kind, op.Variant, why)
			v.Also = append(v.Also, "handle")
			return res, false, v
		}
		if why == "dead-target" {
			cl = "target-accepted"
		}
		if why == "second-relation" {
			cl = "second-relation-accepted"
		}
		return res, false, e.viol(cl, op, "%s %s: illegal (%s) but did not panic", op.Kind, op.Variant, why)
	}
	if !expectPanic && res.Panicked {
		return res, false, e.viol("unexpected-panic", op, "%s %s: legal call panicked: %s", op.Kind, op.Variant, res.Msg)
	}
	if expectPanic {
		// the failed call must have changed nothing: the model is unchanged, compare everything
		cl := "state-after-panic"
		if lockedNow && why == "" {
			cl = "state-after-locked-call"
		}
		if v := e.checkAll(e.S, cl); v != nil {
			v.Op = op
			v.Msg = fmt.Sprintf("after rejected %s %s (%s): %s", op.Kind, op.Variant, whyOrLocked(why), v.Msg)
			return res, false, v
		}
		if v := e.mirrorRejected(op); v != nil {
			return res, false, v
		}
		return res, false, nil
	}
	if structural(op) {
		e.St.LegalStruct++
	}
	if v := e.mirror(op, res); v != nil {
		return res, false, v
	}
	return res, true, nil
}

// commitSpawned enters the entities that the listener created inside this operation's notifications into the model.
func (e *Engine) commitSpawned(op *COp) *Violation {
	s := e.S
	if s.SpawnTrouble != "" {
		msg := s.SpawnTrouble
		s.SpawnTrouble = ""
		s.Spawned = s.Spawned[:0]
		return e.viol("unexpected-panic", op, "%s %s: a call made inside one of its notifications (world unlocked) failed: %s", op.Kind, op.Variant, msg)
	}
	for _, sp := range s.Spawned {
		if v := e.checkNewHandle(sp.H, op); v != nil {
			s.Spawned = s.Spawned[:0]
			return v
		}
		me := e.M.addEntity(sp.H, sp.Set, sp.Target)
		e.touched[sp.H] = true
		e.logEnt(sp.H)
		e.expEvents = append(e.expEvents, e.M.creationEvent(me))
		e.St.Probes["entity-created-inside-notification"]++
	}
	s.Spawned = s.Spawned[:0]
	return nil
}

// statsDigest condenses the public World.Stats() report (nodes, tables, capacities, entity pool).
func (e *Engine) statsDigest() uint64 {
	st := e.S.W.Stats()
	d := NewDigest()
	d.U64(uint64(st.Entities.Used))
	d.U64(uint64(st.Entities.Total))
	d.U64(uint64(st.Entities.Recycled))
	d.U64(uint64(st.ComponentCount))
	d.U64(uint64(st.ActiveNodeCount))
	d.U64(uint64(len(st.Nodes)))
	d.U64(uint64(st.CachedFilters))
	for i := range st.Nodes {
		n := &st.Nodes[i]
		d.U64(uint64(n.ArchetypeCount))
		d.U64(uint64(n.ActiveArchetypeCount))
		d.U64(uint64(n.Size))
		d.U64(uint64(n.Capacity))
		d.U64(b2u(n.IsActive))
	}
	return d.Sum()
}

func whyOrLocked(why string) string {
	if why == "" {
		return "locked"
	}
	return why
}

func b2u(b bool) uint64 {
	if b {
		return 1
	}
	return 0
}

func describe(op *COp, why string, locked bool) string {
	s := fmt.Sprintf("%s/%s", op.Kind, op.Variant)
	if !op.Ent.IsZero() {
		s += fmt.Sprintf(" e=%d.%d", op.Ent.ID(), op.Ent.Generation())
	}
	if op.HasTgt || op.Kind == "setrel" {
		s += fmt.Sprintf(" tgt=%d.%d", op.Target.ID(), op.Target.Generation())
	}
	if len(op.Add) > 0 {
		s += fmt.Sprintf(" add=%v", op.Add)
	}
	if len(op.Rem) > 0 {
		s += fmt.Sprintf(" rem=%v", op.Rem)
	}
	if op.Rel >= 0 {
		s += fmt.Sprintf(" rel=%d", op.Rel)
	}
	if op.Kind == "batch" || op.Kind == "qopen" || op.Kind == "freg" || op.Kind == "funreg" {
		s += fmt.Sprintf(" slot=%d cached=%v", op.Slot, op.Cached)
	}
	if op.Spec != nil {
		s += " " + op.Spec.String()
	}
	if op.Q {
		s += " Q"
	}
	if op.Count != 0 {
		s += fmt.Sprintf(" n=%d", op.Count)
	}
	if op.With {
		s += " with"
	}
	if why != "" {
		s += " ILLEGAL:" + why
	}
	if locked {
		s += " LOCKED"
	}
	return s
}

// Run executes a trace. It returns the first violation, or nil.
func (e *Engine) Run(tr *Trace) (v *Violation) {
	defer func() {
		if !e.noHook {
			setHookPoint(nil)
		}
		if r := recover(); r != nil {
			if e.lensActive {
				v = e.lensFirst // model and world had already parted: whatever broke afterwards proves nothing new
				return
			}
			// a panic that escaped: from the oracle's own observation calls (which are legal reads)
			buf := make([]byte, 4096)
			n := runtime.Stack(buf, false)
			v = e.viol("oracle-panic", nil, "observation panicked: %v\n%s", r, buf[:n])
		}
	}()
	lens := e.P.Lens == "C11" && e.P.Listener == "all" && e.P.EventReplica
	for i := range tr.Steps {
		e.step = i
		st := &tr.Steps[i]
		if e.lensActive && st.Op == "reset" {
			return e.lensFirst // Reset announces nothing by design: the replica cannot follow it
		}
		if v := e.doStep(st); v != nil {
			if !lens || (!e.lensActive && DirectlyAttributed(v, "C11")) {
				return v
			}
			if e.lensFirst == nil {
				e.lensFirst = v
			}
			switch v.Class {
			case "unexpected-panic", "oracle-panic", "crash", "hang", "no-panic", "target-accepted", "second-relation-accepted", "lock-not-enforced":
				// a call ended otherwise than the model expected: what it left behind is not covered by any event rule
				return e.lensFirst
			}
			e.lensActive = true
		}
		if e.lensActive {
			if lv := e.lensCheck(); lv != nil {
				return lv
			}
		}
		e.St.Steps++
	}
	if e.lensActive {
		for _, q := range e.S.Open {
			func() {
				defer func() { recover() }()
				q.Close()
			}()
		}
		if lv := e.lensCheck(); lv != nil {
			return lv
		}
		return e.lensFirst
	}
	return e.finish()
}

// lensCheck (Plan.Lens == "C11"): model and world have parted, so nothing the model says counts any more. What still
// counts is C11's model-free core: the world rebuilt from the events that were actually delivered equals the world as
// the public API shows it - every entity, its components, its target - whenever no query is open.
func (e *Engine) lensCheck() *Violation {
	s := e.S
	got := s.Events
	s.Events = nil
	e.applyReplica(got)
	if s.W.IsLocked() {
		return nil
	}
	mk := func(format string, args ...interface{}) *Violation {
		v := e.v(s, "event", "after a mismatch of another kind (%s: %s) the run went on; "+format,
			append([]interface{}{e.lensFirst.Class, firstLine(e.lensFirst.Msg)}, args...)...)
		v.Facts = append(v.Facts, "lens:C11")
		return v
	}
	if !e.replicaOK {
		return mk("the delivered event stream is not replayable (event for an unknown entity, double creation, or a removal whose component set differs)")
	}
	n := 0
	var bad *Violation
	q := s.W.Query(ecs.All())
	for q.Next() {
		n++
		if bad != nil {
			continue
		}
		h := q.Entity()
		mask := q.Mask()
		set, _ := s.maskToSet(&mask)
		r := e.replica[h]
		switch {
		case r == nil:
			bad = mk("entity %v exists, the delivered events never announced it", h)
		case r.Cs != set:
			bad = mk("entity %v has components %v, replaying the delivered events gives %v", h, listOf(set), listOf(r.Cs))
		default:
			if rel := e.M.relOf(set); rel >= 0 && s.Reg[rel] {
				if t := s.W.Relations().Get(h, s.IDs[rel]); t != r.Target {
					bad = mk("entity %v has target %v, replaying the delivered events gives %v", h, t, r.Target)
				}
			}
		}
	}
	if bad != nil {
		return bad
	}
	if n != len(e.replica) {
		return mk("the world has %d entities, replaying the delivered events gives %d", n, len(e.replica))
	}
	return nil
}

func firstLine(s string) string {
	for i := 0; i < len(s); i++ {
		if s[i] == '\n' {
			return s[:i]
		}
	}
	if len(s) > 160 {
		return s[:160]
	}
	return s
}

// StepOnce executes step i of the trace (for interleaving several engines in one goroutine).
func (e *Engine) StepOnce(tr *Trace, i int) (v *Violation) {
	defer func() {
		if !e.noHook {
			setHookPoint(nil)
		}
		if r := recover(); r != nil {
			buf := make([]byte, 4096)
			n := runtime.Stack(buf, false)
			v = e.viol("oracle-panic", nil, "observation panicked: %v\n%s", r, buf[:n])
		}
	}()
	e.step = i
	if v := e.doStep(&tr.Steps[i]); v != nil {
		return v
	}
	e.St.Steps++
	return nil
}

// Finish releases open queries, runs the recovery probe and logs the final dump.
func (e *Engine) Finish() (v *Violation) {
	defer func() {
		if r := recover(); r != nil {
			buf := make([]byte, 4096)
			n := runtime.Stack(buf, false)
			v = e.viol("oracle-panic", nil, "observation panicked: %v\n%s", r, buf[:n])
		}
	}()
	return e.finish()
}

func (e *Engine) beginStep() {
	e.expEvents = e.expEvents[:0]
	e.expLockedAt = false
	for k := range e.touched {
		delete(e.touched, k)
	}
}

func (e *Engine) doStep(st *Step) *Violation {
	e.beginStep()
	e.gcAt = 0
	if st.GC == 1 {
		e.forceGC("gc-boundary")
	} else if st.GC >= 3 && !HooksEnabled {
		e.forceGC("gc-boundary")
	} else if st.GC >= 3 && !e.noHook {
		e.gcCount = 0
		e.gcAt = st.GC - 2
		setHookPoint(func(site int) {
			e.gcCount++
			if e.gcCount == e.gcAt {
				e.forceGC("gc-midop")
			}
		})
	}
	c := &cursor{a: st.A}
	var v *Violation
	opName := st.Op
	if e.locked() && structuralName[opName] && len(st.A) > 0 {
		// A mutator scheduled while the world is locked is issued anyway (and must be refused) only part of the
		// time; otherwise the iterator holding the lock gets the turn, so that most steps are legal progress.
		y := int(st.A[len(st.A)-1] % 100)
		if y < e.P.LockedYield {
			if y%3 == 0 {
				opName = "qclose"
			} else {
				opName = "qnext"
			}
		}
	}
	if e.P.Wide == "tables" && e.P.Profile == "C15" && HooksEnabled && !e.locked() && len(st.A) > 1 && st.A[1]%3 == 0 {
		// steering only (never a verdict): reset exactly when a relation node holds a whole number of table pages
		n := relTablesPerNode(e.S.W)
		manyTables := e.P.EntityCap >= 300 // the variant that goes beyond four pages of tables: no reset before that
		if (!manyTables && n > 0 && n%32 == 0 && n != e.lastBorderReset) ||
			(manyTables && n > 128 && n > e.lastBorderReset+8 && (n%32 == 0 || st.A[1]%24 == 0)) {
			opName = "reset"
			e.lastBorderReset = n
			e.St.Probes["reset-on-table-page-border"]++
			if n > 128 {
				e.St.Probes["reset-with->128-tables-in-one-node"]++
			}
		}
	}
	if len(e.replayQ) > 0 && !e.locked() && structuralName[opName] && opName != "reset" && !e.full() {
		opName = "setup-again"
	}
	switch opName {
	case "setup-again":
		op := e.replayQ[0]
		e.replayQ = e.replayQ[1:]
		e.St.Probes["setup-call-repeated-after-reset"]++
		v = e.runNew(&op)
	case "new":
		v = e.opNew(c)
	case "newbatch":
		v = e.opNewBatch(c)
	case "rm":
		v = e.opRemove(c)
	case "xchg":
		v = e.opExchange(c)
	case "set":
		v = e.opSet(c)
	case "setrel":
		v = e.opSetRel(c)
	case "batch":
		v = e.opBatch(c)
	case "reset":
		v = e.opReset(c)
	case "read":
		v = e.opRead(c)
	case "qopen":
		v = e.opQOpen(c)
	case "qnext":
		v = e.opQNext(c)
	case "qclose":
		v = e.opQClose(c)
	case "fnew":
		v = e.opFNew(c)
	case "freg":
		v = e.opFReg(c)
	case "funreg":
		v = e.opFUnreg(c)
	case "regtype":
		v = e.opRegType(c)
	case "res":
		v = e.opRes(c)
	case "lockmax":
		v = e.opLockMax(c)
	case "lockenum":
		v = e.opLockEnum(c)
	case "sweep":
		v = e.opSweep(c)
	case "dump":
		v = e.opDump(c)
	case "addsub":
		v = e.opAddSub(c)
	default:
		e.St.Skipped++
	}
	if !e.noHook {
		setHookPoint(nil)
	}
	if v != nil {
		return e.twinDifferential(v)
	}
	if st.GC == 2 {
		e.forceGC("gc-boundary")
	}
	return e.twinDifferential(e.afterStep())
}

// twinDifferential: a violation in the primary world that the lock-step fresh twin (same registrations, same
// post-reset history) does not show means the reset world does not behave like a fresh one (C15).
func (e *Engine) twinDifferential(v *Violation) *Violation {
	if v == nil || v.World != "primary" || e.resetCount == 0 {
		return v
	}
	for _, sh := range e.Shadows {
		if sh.Kind != "fresh" {
			continue
		}
		clean := false
		func() {
			defer func() { recover() }()
			switch v.Class {
			case "unexpected-panic":
				if v.Op != nil {
					clean = !sh.S.Apply(v.Op).Panicked
				}
			case "no-panic", "target-accepted", "second-relation-accepted", "lock-not-enforced":
				if v.Op != nil {
					clean = sh.S.Apply(v.Op).Panicked
				}
			default:
				sh.S.Events = nil
				clean = e.checkAll(sh.S, "") == nil
			}
		}()
		if clean {
			v.Also = append(v.Also, "reset-diff")
			v.Facts = append(v.Facts, "fresh-twin-is-clean")
		}
	}
	return v
}

var clobberSink uint64

//go:noinline
func clobber(depth int) uint64 {
	var buf [64]uint64
	for i := range buf {
		buf[i] = 0xDEADBEEFCAFEF00D ^ uint64(i+depth)
	}
	if depth > 0 {
		return buf[depth%64] + clobber(depth-1)
	}
	return buf[3]
}

func (e *Engine) forceGC(kind string) {
	runtime.GC()
	clobberSink += clobber(40)
	e.St.Faults[kind]++
	if kind == "gc-boundary" && e.weak.enabled() && e.P.Profile == "C14" {
		e.pendingRetention = true
	}
}

// checkRetention (C14): right after a full collection at an operation boundary, every tracked object that a
// live component references must still be there, and every object that no component references any more
// (component or entity removed, value overwritten, world reset) must be gone.
func (e *Engine) checkRetention() *Violation {
	live := map[uint64]bool{}
	for _, me := range e.M.Alive {
		for t, spec := range e.P.Types {
			if spec.IsPtr() && me.Has(t) {
				live[leU64(me.Val[t])] = true
			}
		}
	}
	for _, c := range e.weak.ids() {
		_, alive := e.weak.alive(c)
		switch {
		case live[c] && !alive:
			return e.viol("gc-integrity", nil, "object %d was collected although a live component references it", c)
		case !live[c] && alive:
			return e.viol("gc-retention", nil, "object %d is still reachable after a full GC although no component references it any more", c)
		case !live[c]:
			e.weak.forget(c)
			e.St.Probes["released-object-collected"]++
		default:
			e.St.Probes["referenced-object-alive"]++
		}
	}
	return nil
}

func (e *Engine) afterStep() *Violation {
	s := e.S
	if e.lensActive {
		return nil // judged by lensCheck alone
	}
	if e.pendingRetention {
		e.pendingRetention = false
		// the GC ran before this step's operation (GC==1) or after it (GC==2); in both cases the model is consistent
		// with the world now, but only a GC that ran after the last change tells about release: run one more.
		runtime.GC()
		if v := e.checkRetention(); v != nil {
			return v
		}
	}
	// lock ledger
	if got := s.W.IsLocked(); got != e.locked() {
		return e.viol("lock-ledger", nil, "IsLocked()=%v but %d queries are open", got, len(e.Open))
	}
	// events
	if e.listening() {
		if v := e.checkEvents(s, "event"); v != nil {
			return v
		}
	}
	for _, k := range sortedEntities(e.touched) { // sorted: the first mismatch reported must not depend on map order
		if me, ok := e.M.ByH[k]; ok {
			if v := e.checkEntity(s, me, "value"); v != nil {
				return v
			}
		} else if s.W.Alive(k) {
			return e.viol("handle", nil, "removed entity %v still reported alive", k)
		}
	}
	full := e.P.FullEvery <= 1 || e.step%e.P.FullEvery == 0
	if full {
		if v := e.checkAll(s, ""); v != nil {
			return v
		}
	}
	if v := e.checkReplica(); v != nil {
		return v
	}
	for _, sh := range e.Shadows {
		if v := e.checkShadow(sh, full); v != nil {
			return v
		}
	}
	if e.step%8 == 0 {
		e.St.Shapes[worldShape(s.W)] = struct{}{}
	}
	return nil
}

func (e *Engine) finish() *Violation {
	// release everything still open (Close path), then the bounded-liveness recovery probe
	for len(e.Open) > 0 {
		e.beginStep()
		if v := e.closeQuery(len(e.Open)-1, "Close"); v != nil {
			return v
		}
		if v := e.afterStep(); v != nil {
			return v
		}
	}
	e.step++
	e.beginStep()
	if v := e.checkAll(e.S, ""); v != nil {
		return v
	}
	if v := e.checkPendingDump(); v != nil {
		return v
	}
	if v := e.recoveryProbe(); v != nil {
		return v
	}
	e.St.Shapes[worldShape(e.S.W)] = struct{}{}
	if n := relTablesPerNode(e.S.W); n > e.St.Probes["max:rel-tables-per-node"] {
		e.St.Probes["max:rel-tables-per-node"] = n
	}
	if relTablesPerNode(e.S.W) > 32 {
		e.St.Probes["runs-with->32-tables-in-one-relation-node"]++
	}
	if e.P.Profile == "C13" || e.P.Profile == "C19" {
		e.orderProbe()
	}
	if n := len(e.M.Alive); n > e.St.Probes["max:entities-alive-at-end"] {
		e.St.Probes["max:entities-alive-at-end"] = n
	}
	if len(e.M.Alive) > 256 {
		e.St.Probes["runs-ending-with->256-entities"]++
	}
	d := e.S.W.DumpEntities()
	e.logEnts("dump", d.Entities)
	e.log.U64(uint64(d.Next))
	e.log.U64(uint64(d.Available))
	for _, a := range d.Alive {
		e.log.U64(uint64(a))
	}
	return nil
}

// recoveryProbe: create -> add -> query -> set relation -> remove must succeed on an unlocked world.
func (e *Engine) recoveryProbe() *Violation {
	reg := e.regTypes()
	var plain []int
	rel := -1
	for _, t := range reg {
		if e.M.RelMask&(1<<uint(t)) != 0 {
			if rel < 0 {
				rel = t
			}
		} else {
			plain = append(plain, t)
		}
	}
	steps := []Step{}
	_ = steps
	// create
	op := &COp{Kind: "new", Variant: "NewEntity", Rel: -1}
	res, ok, v := e.issue(op, "")
	if v != nil {
		v.Class = "not-usable"
		return v
	}
	if !ok {
		return e.viol("not-usable", op, "recovery probe: create refused")
	}
	if v := e.commitNew(op, res.Ent); v != nil {
		return v
	}
	if v := e.afterStep(); v != nil {
		return v
	}
	e.beginStep()
	me := e.M.ByH[res.Ent]
	if len(plain) > 0 {
		op = &COp{Kind: "xchg", Variant: "Add", Ent: me.H, Add: []int{plain[0]}, Rel: -1}
		_, ok, v = e.issue(op, "")
		if v != nil {
			v.Class = "not-usable"
			return v
		}
		if ok {
			e.commitExchange(op, me)
		}
		if v := e.afterStep(); v != nil {
			return v
		}
		e.beginStep()
	}
	if rel >= 0 {
		op = &COp{Kind: "xchg", Variant: "Add", Ent: me.H, Add: []int{rel}, Rel: -1}
		_, ok, v = e.issue(op, "")
		if v != nil {
			v.Class = "not-usable"
			return v
		}
		if ok {
			e.commitExchange(op, me)
		}
		if v := e.afterStep(); v != nil {
			return v
		}
		e.beginStep()
		op = &COp{Kind: "setrel", Ent: me.H, Rel: rel, Target: me.H}
		_, ok, v = e.issue(op, "")
		if v != nil {
			v.Class = "not-usable"
			return v
		}
		if ok {
			e.commitSetRel(op, me)
		}
	}
	if v := e.afterStep(); v != nil {
		return v
	}
	e.step++
	e.beginStep()
	op = &COp{Kind: "rm", Ent: me.H, Rel: -1}
	_, ok, v = e.issue(op, "")
	if v != nil {
		if v.Class == "unexpected-panic" && rel >= 0 {
			v.Class = "target-death"
		} else {
			v.Class = "not-usable"
		}
		return v
	}
	if ok {
		e.commitRemove(me)
	}
	if v := e.afterStep(); v != nil {
		return v
	}
	return e.checkAll(e.S, "")
}

func sortedEntities(m map[ecs.Entity]bool) []ecs.Entity {
	out := make([]ecs.Entity, 0, len(m))
	for k := range m {
		out = append(out, k)
	}
	sort.Slice(out, func(i, j int) bool {
		if out[i].ID() != out[j].ID() {
			return out[i].ID() < out[j].ID()
		}
		return out[i].Generation() < out[j].Generation()
	})
	return out
}

// orderProbe (end of a C13 / C19 run): a fixed continuation that makes latent order visible. For every registered
// relation type three new targets get a child each, one after the other, and the children are walked; which retired
// table slot each new target received - decided by the order in which earlier resets and target deaths retired them -
// shows in the iteration order, which goes into the run's digest. Nothing is compared with the model here.
func (e *Engine) orderProbe() {
	w := e.S.W
	if w.IsLocked() {
		return
	}
	defer func() { recover() }()
	for t, reg := range e.S.Reg {
		if !reg || !e.P.Types[t].IsRelation() || e.P.Types[t].IsPtr() {
			continue
		}
		id := e.S.IDs[t]
		var targets []ecs.Entity
		for i := 0; i < 3; i++ {
			targets = append(targets, w.NewEntity())
		}
		for _, tg := range targets {
			ecs.NewBuilder(w, id).WithRelation(id).New(tg)
		}
		q := w.Query(ecs.All(id))
		var seq []ecs.Entity
		for q.Next() {
			seq = append(seq, q.Entity())
		}
		e.logEnts("order-probe", seq)
	}
	// one target with children under every relation type, a registered filter listing their tables followed by
	// later ones; the children leave, then the target dies: all its (empty) tables are retired in one go, and the
	// order in which that happens shows in the order of the registered filter's remaining tables
	var rels []ecs.ID
	for t, reg := range e.S.Reg {
		if reg && e.P.Types[t].IsRelation() && !e.P.Types[t].IsPtr() {
			rels = append(rels, e.S.IDs[t])
		}
	}
	// the first World.Stats() report of a relation node that already has several tables of different sizes (in a
	// scratch world: the run's own world has usually been reported on before)
	for t, reg := range e.S.Reg {
		if !reg || !e.P.Types[t].IsRelation() || e.P.Types[t].IsPtr() {
			continue
		}
		sw := ecs.NewWorld(ecs.NewConfig().WithCapacityIncrement(8))
		rid := ecs.TypeID(&sw, e.S.Types[t])
		b := ecs.NewBuilder(&sw, rid).WithRelation(rid)
		for i := 1; i <= 5; i++ {
			b.NewBatch(i, sw.NewEntity())
		}
		st := sw.Stats()
		for i := range st.Nodes {
			for j := range st.Nodes[i].Archetypes {
				e.log.U64(uint64(st.Nodes[i].Archetypes[j].Size))
			}
		}
		break
	}
	if len(rels) < 2 {
		return
	}
	all := ecs.All()
	cf := w.Cache().Register(all)
	tg, other := w.NewEntity(), w.NewEntity()
	var kids []ecs.Entity
	for _, id := range rels {
		kids = append(kids, ecs.NewBuilder(w, id).WithRelation(id).New(tg))
	}
	for _, id := range rels {
		ecs.NewBuilder(w, id).WithRelation(id).New(other)
		ecs.NewBuilder(w, id).WithRelation(id).New(kids[0]) // a child of a child: yet another table behind them
	}
	for _, k := range kids[1:] {
		w.RemoveEntity(k)
	}
	w.Relations().Set(kids[0], rels[0], other)
	w.RemoveEntity(tg)
	q := w.Query(&cf)
	var seq []ecs.Entity
	for q.Next() {
		seq = append(seq, q.Entity())
	}
	e.logEnts("order-probe-registered", seq)
	w.Cache().Unregister(&cf)
}
