package sim

import (
	"bufio"
	"context"
	"encoding/json"
	"flag"
	"fmt"
	"os"
	"os/exec"
	"path/filepath"
	"sort"
	"strings"
	"sync"
	"time"
)

// RunSpecial dispatches the checks that are not plain single-world batches of the main engine.
func RunSpecial(args []string) int {
	if len(args) == 0 {
		fmt.Fprintln(os.Stderr, "usage: archesim special <name> ...")
		return 2
	}
	switch args[0] {
	case "C13":
		return specialC13(args[1:])
	case "digests":
		return specialDigests(args[1:])
	case "C19":
		return specialC19(args[1:])
	case "c19worker":
		return c19Worker(args[1:])
	case "c19race":
		return c19Race(args[1:])
	case "C14":
		return specialC14(args[1:])
	case "C18":
		return specialC18(args[1:])
	}
	fmt.Fprintln(os.Stderr, "unknown special", args[0])
	return 2
}

// ---------------------------------------------------------------------------------------------------------
// C13: determinism. The same trace is executed in several fresh OS processes (new map seeds, new addresses,
// GOMAXPROCS 1/4/16, different GOGC) with GC forced at different points (independent gc stream), and twice in
// each process. The digest of everything observable must be identical.
// ---------------------------------------------------------------------------------------------------------

// applyGCVariant re-draws the GC placement of a trace from an independent stream. Variant 0 = no forced GC.
func applyGCVariant(tr *Trace, variant int) {
	for i := range tr.Steps {
		tr.Steps[i].GC = 0
	}
	if variant == 0 {
		return
	}
	g := NewRng(tr.Seed, uint64(StreamGC+variant))
	permille := []int{0, 60, 120, 160}[variant%4]
	for i := range tr.Steps {
		if g.Bool(permille) {
			switch g.Intn(4) {
			case 0:
				tr.Steps[i].GC = 1
			case 1:
				tr.Steps[i].GC = 2
			default:
				tr.Steps[i].GC = 3 + g.Intn(12)
			}
		}
	}
}

type digestLine struct {
	K       int    `json:"k"`
	Seed    uint64 `json:"seed"`
	D       uint64 `json:"d"`
	D2      uint64 `json:"d2"` // second in-process execution
	Class   string `json:"class,omitempty"`
	Struct  int    `json:"struct"`
	Steps   int    `json:"steps"`
	GCs     int    `json:"gcs"`
	Shape   uint64 `json:"shape"`
	Targets int    `json:"targets"`
}

func traceFor(prop string, seed uint64, k int, thorough bool) *Trace {
	rs := Mix(seed, uint64(k))
	tr := GenTrace(prop, rs, thorough)
	return tr
}

func specialDigests(args []string) int {
	fs := flag.NewFlagSet("digests", flag.ExitOnError)
	prop := fs.String("prop", "C13", "")
	seed := fs.Uint64("seed", 1, "")
	idx := fs.Int("idx", 0, "")
	n := fs.Int("n", 1, "")
	runs := fs.Int("runs", 100, "")
	gcvar := fs.Int("gcvar", 0, "")
	thorough := fs.Bool("thorough", false, "")
	file := fs.String("file", "", "single trace file instead of generated runs")
	deadline := fs.Int64("deadline", 0, "")
	inproc := fs.Bool("inproc", false, "only compare the two in-process executions; print mismatches and a count")
	fs.Parse(args)
	out := bufio.NewWriter(os.Stdout)
	defer out.Flush()
	if *inproc {
		n2, st := 0, 0
		for k := *idx; k < *runs; k += *n {
			if *deadline > 0 && time.Now().Unix() >= *deadline {
				break
			}
			tr := traceFor(*prop, *seed, k, *thorough)
			applyGCVariant(tr, *gcvar)
			v1, e1 := RunTrace(tr, false)
			v2, e2 := RunTrace(tr, false)
			n2++
			st += e1.St.Steps
			if obsWithViolation(e1, v1) != obsWithViolation(e2, v2) {
				fmt.Fprintf(out, "M %d\n", k)
			}
		}
		fmt.Fprintf(out, "N %d %d\n", n2, st)
		return 0
	}
	one := func(k int, tr *Trace) {
		applyGCVariant(tr, *gcvar)
		v, e := RunTrace(tr, false)
		l := digestLine{K: k, Seed: tr.Seed, D: obsWithViolation(e, v), Struct: e.St.LegalStruct, Steps: e.St.Steps,
			GCs: e.St.Faults["gc-boundary"] + e.St.Faults["gc-midop"], Shape: worldShape(e.S.W), Targets: len(e.M.Targets)}
		if v != nil {
			l.Class = v.Class
		}
		v2, e2 := RunTrace(tr, false)
		l.D2 = obsWithViolation(e2, v2)
		b, _ := json.Marshal(l)
		out.Write(b)
		out.WriteByte('\n')
	}
	if *file != "" {
		b, err := os.ReadFile(*file)
		if err != nil {
			return 2
		}
		var tr Trace
		if json.Unmarshal(b, &tr) != nil {
			return 2
		}
		tr.Violation = nil
		one(0, &tr)
		return 0
	}
	for k := *idx; k < *runs; k += *n {
		if *deadline > 0 && time.Now().Unix() >= *deadline {
			break
		}
		one(k, traceFor(*prop, *seed, k, *thorough))
	}
	return 0
}

// obsWithViolation: the observable digest of a run; if an oracle tripped, what it saw is part of the observation
// (two executions that trip differently have observed different things).
func obsWithViolation(e *Engine, v *Violation) uint64 {
	d := NewDigest()
	d.U64(e.ObsDigest())
	if v != nil {
		d.Str(v.Class)
		d.U64(uint64(v.Step))
		if v.Class != "oracle-panic" { // that message carries a stack trace with addresses
			d.Str(v.Msg)
		}
	}
	return d.Sum()
}

type procConfig struct {
	Name   string
	Env    []string
	GCVar  int
	Shards int
}

var c13Configs = []procConfig{
	{"gomaxprocs1-nogc", []string{"GOMAXPROCS=1", "GOGC=100"}, 0, 4},
	{"gomaxprocs4-gc-boundaries-gogc20", []string{"GOMAXPROCS=4", "GOGC=20"}, 1, 4},
	{"gomaxprocs16-gc-midop-gogcoff", []string{"GOMAXPROCS=16", "GOGC=off"}, 2, 4},
	{"gomaxprocs2-gc-heavy-gogc5", []string{"GOMAXPROCS=2", "GOGC=5"}, 3, 4},
}

// watchdogCtx bounds a child process: budget plus two minutes. A child that never ends is killed; the driver then
// reports the missing result as harness trouble (exit 2) instead of blocking forever.
func watchdogCtx(budgetSeconds int) context.Context {
	ctx, _ := context.WithTimeout(context.Background(), time.Duration(budgetSeconds+120)*time.Second)
	return ctx
}

func selfBin() string {
	p, err := os.Executable()
	if err != nil {
		return "/verif/bin/archesim"
	}
	return p
}

func specialC13(args []string) int {
	fs := flag.NewFlagSet("C13", flag.ExitOnError)
	tier := fs.String("tier", "quick", "")
	seed := fs.Uint64("seed", 1, "")
	evidence := fs.String("evidence", "", "")
	runs := fs.Int("runs", 0, "")
	budget := fs.Int("budget", 0, "")
	outdir := fs.String("out", "/verif/replays", "")
	fs.Parse(args)
	thorough := *tier == "thorough"
	if *runs == 0 {
		*runs = 3000
		if thorough {
			*runs = 150000
		}
	}
	if *budget == 0 {
		*budget = 45
		if thorough {
			*budget = 600
		}
	}
	start := time.Now()
	deadline := start.Add(time.Duration(*budget) * time.Second).Unix()
	bin := selfBin()
	type key struct{ cfg, k int }
	var mu sync.Mutex
	res := map[key]digestLine{}
	var wg sync.WaitGroup
	var procErr []string
	for ci, cfg := range c13Configs {
		for sh := 0; sh < cfg.Shards; sh++ {
			wg.Add(1)
			go func(ci int, cfg procConfig, sh int) {
				defer wg.Done()
				a := []string{"special", "digests", "-prop", "C13", "-seed", fmt.Sprint(*seed), "-idx", fmt.Sprint(sh), "-n", fmt.Sprint(cfg.Shards),
					"-runs", fmt.Sprint(*runs), "-gcvar", fmt.Sprint(cfg.GCVar), "-deadline", fmt.Sprint(deadline)}
				if thorough {
					a = append(a, "-thorough")
				}
				cmd := exec.CommandContext(watchdogCtx(*budget), bin, a...)
				cmd.Env = append(os.Environ(), cfg.Env...)
				out, err := cmd.Output()
				if err != nil {
					mu.Lock()
					procErr = append(procErr, fmt.Sprintf("%s shard %d: %v", cfg.Name, sh, err))
					mu.Unlock()
				}
				sc := bufio.NewScanner(strings.NewReader(string(out)))
				sc.Buffer(make([]byte, 1<<20), 1<<26)
				for sc.Scan() {
					var l digestLine
					if json.Unmarshal(sc.Bytes(), &l) == nil {
						mu.Lock()
						res[key{ci, l.K}] = l
						mu.Unlock()
					}
				}
			}(ci, cfg, sh)
		}
	}
	// in-process pass: many more traces, each executed twice in one process (map iteration order is randomised per
	// range statement, so dependence on it shows up inside one process already)
	inRuns := *runs * 12
	inTraces, inSteps := 0, 0
	var inBad []int
	const IW = 10
	for i := 0; i < IW; i++ {
		wg.Add(1)
		go func(i int) {
			defer wg.Done()
			a := []string{"special", "digests", "-inproc", "-prop", "C13", "-seed", fmt.Sprint(*seed), "-idx", fmt.Sprint(i), "-n", fmt.Sprint(IW),
				"-runs", fmt.Sprint(inRuns), "-deadline", fmt.Sprint(deadline)}
			if thorough {
				a = append(a, "-thorough")
			}
			cmd := exec.CommandContext(watchdogCtx(*budget), bin, a...)
			cmd.Env = append(os.Environ(), "GOMAXPROCS=2")
			out, err := cmd.Output()
			mu.Lock()
			defer mu.Unlock()
			if err != nil {
				procErr = append(procErr, fmt.Sprintf("inproc shard %d: %v", i, err))
			}
			for _, line := range strings.Split(string(out), "\n") {
				var a, b int
				if n, _ := fmt.Sscanf(line, "M %d", &a); n == 1 {
					inBad = append(inBad, a)
				} else if n, _ := fmt.Sscanf(line, "N %d %d", &a, &b); n == 2 {
					inTraces += a
					inSteps += b
				}
			}
		}(i)
	}
	wg.Wait()
	wall := time.Since(start).Seconds()
	// compare
	complete := 0
	distinct := map[uint64]struct{}{}
	shapes := map[uint64]struct{}{}
	gcs, steps, executions := 0, 0, 0
	foreign := map[string]int{}
	var bad []int
	for k := 0; k < *runs; k++ {
		var ds []digestLine
		for ci := range c13Configs {
			if l, ok := res[key{ci, k}]; ok {
				ds = append(ds, l)
			}
		}
		if len(ds) < len(c13Configs) {
			continue // deadline cut this run short in some configuration
		}
		complete++
		differ := false
		for _, l := range ds {
			executions += 2
			gcs += l.GCs
			steps += l.Steps
			if l.D != ds[0].D || l.D2 != l.D {
				differ = true
			}
			if l.Class != "" {
				foreign[l.Class]++
			}
		}
		if ds[0].Struct >= 3 {
			distinct[ds[0].D] = struct{}{}
		}
		shapes[ds[0].Shape] = struct{}{}
		if differ {
			bad = append(bad, k)
		}
	}
	exit := 0
	nViol := 0
	for i, k := range bad {
		if i >= 3 {
			break
		}
		tr := traceFor("C13", *seed, k, thorough)
		tr.Property = "C13"
		tr.Build = "special-C13"
		var parts []string
		for ci, cfg := range c13Configs {
			l := res[key{ci, k}]
			parts = append(parts, fmt.Sprintf("%s: %x/%x", cfg.Name, l.D, l.D2))
		}
		if _, ok := res[key{0, k}]; !ok {
			parts = []string{"two executions in one process differ"}
		}
		small := shrinkNondet(tr)
		small.Violation = &Violation{Class: "nondeterminism", Msg: "digests of the same trace differ between executions: " + strings.Join(parts, "; ")}
		os.MkdirAll(*outdir, 0o755)
		path := filepath.Join(*outdir, fmt.Sprintf("C13-%d.json", tr.Seed))
		b, _ := json.MarshalIndent(small, "", " ")
		os.WriteFile(path, b, 0o644)
		if replayC13(path, true) == 1 {
			fmt.Printf("violation: class=nondeterminism seed=%d %s\n", tr.Seed, small.Violation.Msg)
			fmt.Printf("VIOLATION property=C13 replay=%s\n", path)
			nViol++
			exit = 1
		} else {
			// behaviour that depends on what happens to lie in memory may not survive minimisation: fall back to the
			// trace as it was found (several attempts: each replay is 8 fresh processes x 2 executions)
			tr.Violation = small.Violation
			b, _ := json.MarshalIndent(tr, "", " ")
			os.WriteFile(path, b, 0o644)
			confirmed := false
			for attempt := 0; attempt < 3 && !confirmed; attempt++ {
				confirmed = replayC13(path, true) == 1
			}
			if confirmed {
				fmt.Printf("violation: class=nondeterminism seed=%d (unminimised trace) %s\n", tr.Seed, small.Violation.Msg)
				fmt.Printf("VIOLATION property=C13 replay=%s\n", path)
				nViol++
				exit = 1
				continue
			}
			fmt.Fprintf(os.Stderr, "UNCONFIRMED: nondeterminism at run %d did not reproduce on replay\n", k)
			if exit == 0 {
				exit = 2
			}
		}
	}
	if len(procErr) > 0 {
		for _, e := range procErr {
			fmt.Fprintln(os.Stderr, "CRASH:", e)
		}
		if exit == 0 {
			exit = 2
		}
	}
	if complete == 0 && exit == 0 {
		exit = 2
	}
	if *evidence != "" {
		var cfgNames []string
		for _, c := range c13Configs {
			cfgNames = append(cfgNames, c.Name)
		}
		sample := map[string]interface{}{}
		if complete > 0 {
			tr := traceFor("C13", *seed, 0, thorough)
			_, e := RunTrace(tr, true)
			sample = map[string]interface{}{"seed": tr.Seed, "plan": tr.Plan, "ops": e.Concrete, "digest": fmt.Sprintf("%x", e.ObsDigest())}
		}
		ev := map[string]interface{}{
			"property_id": "C13", "tier": *tier, "seed": *seed, "level": "exploration", "wall_s": wall, "violations": nViol,
			"coverage": map[string]interface{}{
				"evaluations":            complete,
				"distinct_nontrivial":    len(distinct),
				"rule":                   "one evaluation = one generated trace executed 2x in each of 4 process configurations (fresh OS processes: new hash seeds and addresses; GOMAXPROCS 1/4/16/2; GOGC 100/20/off/1; forced GC placement drawn from an independent stream per configuration: none / boundaries / mid-operation hook points / heavy) and the 8 observable digests compared; non-trivial = >=3 legal structural steps; distinct = distinct digests",
				"samples":                []interface{}{sample},
				"executions":             executions,
				"simulated_steps":        steps,
				"forced_gcs":             gcs,
				"process_configs":        cfgNames,
				"runs_per_hour":          float64(complete) / wall * 3600,
				"distinct_hidden_states": len(shapes),
				"foreign_trips":          foreign,
				"digest_contents":        "per step: op, outcome, returned handle/count; full visiting order of every query (reference walks, all registered/unregistered filter slots, All()); every event with content in delivery order; final DumpEntities",
				"real_components":        []string{"ecs", "filter", "listener"},
				"stubbed_components":     []string{},
			},
			"assumptions": []string{"GC timing is varied by forcing full collections at operation boundaries and at hook points, plus GOGC settings; the collector's own concurrent schedule is not controlled"},
		}
		b, _ := json.MarshalIndent(ev, "", " ")
		os.MkdirAll(filepath.Dir(*evidence), 0o755)
		os.WriteFile(*evidence, b, 0o644)
	}
	fmt.Printf("C13 %s: %d traces x %d configurations x 2 and %d traces x 2 in one process, %d differing, %.1fs\n", *tier, complete, len(c13Configs), inTraces, len(bad), wall)
	return exit
}

// shrinkNondet minimises a trace whose two in-process executions differ (map-order dependence shows up inside
// one process already). If only cross-process executions differ the full trace is kept.
func shrinkNondet(tr *Trace) *Trace {
	differs := func(c *Trace) bool {
		for rep := 0; rep < 6; rep++ {
			v1, e1 := RunTrace(c, false)
			v2, e2 := RunTrace(c, false)
			if obsWithViolation(e1, v1) != obsWithViolation(e2, v2) {
				return true
			}
		}
		return false
	}
	if !differs(tr) {
		return tr
	}
	cur := cloneTrace(tr)
	dl := time.Now().Add(40 * time.Second)
	for chunk := len(cur.Steps) / 2; chunk >= 1; chunk /= 2 {
		for i := 0; i+chunk <= len(cur.Steps) && time.Now().Before(dl); {
			c := cloneTrace(cur)
			c.Steps = append(append([]Step{}, cur.Steps[:i]...), cur.Steps[i+chunk:]...)
			if differs(c) {
				cur = c
			} else {
				i += chunk
			}
		}
	}
	cur.Property, cur.Build = tr.Property, tr.Build
	return cur
}

// replayC13 re-runs a recorded trace in 8-24 fresh processes x 2 in-process executions; reproduces if >= 2 digests differ.
func replayC13(path string, quiet bool) int {
	bin := selfBin()
	digests := map[uint64]int{}
	// 8 processes first; up to 24 when no difference has shown yet (a dependence on goroutine or collector timing may need
	// more tries than a dependence on map order)
	for i := 0; i < 24 && (i < 8 || len(digests) < 2); i++ {
		cfg := c13Configs[i%len(c13Configs)]
		cmd := exec.CommandContext(watchdogCtx(120), bin, "special", "digests", "-file", path, "-gcvar", fmt.Sprint(cfg.GCVar))
		cmd.Env = append(os.Environ(), cfg.Env...)
		out, err := cmd.Output()
		if err != nil {
			continue
		}
		var l digestLine
		if json.Unmarshal([]byte(strings.TrimSpace(string(out))), &l) == nil {
			digests[l.D]++
			digests[l.D2]++
		}
	}
	if !quiet {
		fmt.Printf("replay: %d distinct digests over the executions: %v\n", len(digests), digests)
	}
	if len(digests) >= 2 {
		fmt.Printf("VIOLATION property=C13 replay=%s\n", path)
		return 1
	}
	if len(digests) == 0 {
		return 2
	}
	fmt.Println("replay: all digests equal")
	return 0
}

func ReplaySpecial(tr *Trace, quiet bool) int {
	switch tr.Property {
	case "C13":
		f, _ := os.CreateTemp("", "c13-*.json")
		b, _ := json.Marshal(tr)
		f.Write(b)
		f.Close()
		defer os.Remove(f.Name())
		return replayC13(f.Name(), quiet)
	case "C19":
		return replayC19(tr, quiet)
	}
	fmt.Fprintln(os.Stderr, "special replay not available for", tr.Property)
	return 2
}

// ReplaySpecialFile replays files of the other special drivers (C14, C18).
func ReplaySpecialFile(path, prop string, quiet bool) int {
	switch prop {
	case "C18":
		return replayC18(path, quiet)
	case "C14":
		return replayC14(path, quiet)
	}
	fmt.Fprintln(os.Stderr, "no special replay for", prop)
	return 2
}

func sortedKeys(m map[string]int) []string {
	var l []string
	for k := range m {
		l = append(l, k)
	}
	sort.Strings(l)
	return l
}
