package sim

import (
	"fmt"
	"os"
)

// RunSpecial dispatches the checks that are not single-world runs of the main engine (C13, C14 parts, C18, C19).
func RunSpecial(args []string) int {
	if len(args) == 0 {
		fmt.Fprintln(os.Stderr, "usage: archesim special <name> ...")
		return 2
	}
	switch args[0] {
	case "digest":
		return specialDigest(args[1:])
	}
	fmt.Fprintln(os.Stderr, "unknown special", args[0])
	return 2
}

func ReplaySpecial(tr *Trace, quiet bool) int {
	fmt.Fprintln(os.Stderr, "special replay not available for", tr.Property)
	return 2
}

func specialDigest(args []string) int { return 2 }
