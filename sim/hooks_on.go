//go:build verif

package sim

import "github.com/mlange-42/arche/ecs"

// HooksEnabled reports whether arche was built with the verif hooks.
const HooksEnabled = true

func worldShape(w *ecs.World) uint64     { return w.VerifShape() }
func worldInvariants(w *ecs.World) error { return w.VerifCheckInvariants() }
func setHookPoint(f func(site int))      { ecs.VerifPoint = f }
func relTablesPerNode(w *ecs.World) int  { return w.VerifStats().MaxRelTablesPerNode }
