//go:build !go1.24

package sim

// Without weak pointers (default toolchain) the release half of C14 is not checked; see weak_go124.go.

type weakLedger struct{}

func newWeakLedger() *weakLedger                         { return &weakLedger{} }
func (l *weakLedger) resetAll()                          {}
func (l *weakLedger) enabled() bool                      { return false }
func (l *weakLedger) track(c uint64, p *Canary)          {}
func (l *weakLedger) alive(c uint64) (known, alive bool) { return false, false }
func (l *weakLedger) forget(c uint64)                    {}
func (l *weakLedger) ids() []uint64                      { return nil }
