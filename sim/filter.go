package sim

import (
	"fmt"

	"github.com/mlange-42/arche/ecs"
	"github.com/mlange-42/arche/filter"
)

// FilterSpec is a symbolic filter expression over live type indices. The model evaluates it with its own set
// semantics; Build constructs the real arche filter.
type FilterSpec struct {
	Kind   string      `json:"kind"` // all | without | exclusive | relation | and | or | xor | not | any | noneof | anynot
	Ids    []int       `json:"ids,omitempty"`
	Excl   []int       `json:"excl,omitempty"`
	L      *FilterSpec `json:"l,omitempty"`
	R      *FilterSpec `json:"r,omitempty"`
	Target ecs.Entity  `json:"target,omitempty"`
}

func (f *FilterSpec) String() string {
	switch f.Kind {
	case "all":
		return fmt.Sprintf("All%v", f.Ids)
	case "without":
		return fmt.Sprintf("All%v.Without%v", f.Ids, f.Excl)
	case "exclusive":
		return fmt.Sprintf("All%v.Exclusive", f.Ids)
	case "relation":
		return fmt.Sprintf("Rel(%s,%d/%d)", f.L, f.Target.ID(), f.Target.Generation())
	case "and", "or", "xor":
		return fmt.Sprintf("%s(%s,%s)", f.Kind, f.L, f.R)
	case "not":
		return fmt.Sprintf("not(%s)", f.L)
	default:
		return fmt.Sprintf("%s%v", f.Kind, f.Ids)
	}
}

// matchMask is the model's evaluation of the component part of a filter on a component set.
func (f *FilterSpec) matchMask(cs uint32) bool {
	switch f.Kind {
	case "all":
		return cs&setOf(f.Ids) == setOf(f.Ids)
	case "without":
		return cs&setOf(f.Ids) == setOf(f.Ids) && cs&setOf(f.Excl) == 0
	case "exclusive":
		return cs == setOf(f.Ids)
	case "relation":
		return f.L.matchMask(cs)
	case "and":
		return f.L.matchMask(cs) && f.R.matchMask(cs)
	case "or":
		return f.L.matchMask(cs) || f.R.matchMask(cs)
	case "xor":
		return f.L.matchMask(cs) != f.R.matchMask(cs)
	case "not":
		return !f.L.matchMask(cs)
	case "any":
		return cs&setOf(f.Ids) != 0
	case "noneof":
		return cs&setOf(f.Ids) == 0
	case "anynot":
		return cs&setOf(f.Ids) != setOf(f.Ids)
	}
	panic("bad filter kind " + f.Kind)
}

// Match evaluates the filter for a model entity. must: the entity has to be selected; may: it is allowed to be
// selected. They differ only for a relation filter applied to an entity without a relation component, which
// the documentation leaves open.
func (f *FilterSpec) Match(m *Model, e *MEnt) (must, may bool) {
	if !f.matchMask(e.Cs) {
		return false, false
	}
	if f.Kind != "relation" {
		return true, true
	}
	if m.relOf(e.Cs) < 0 {
		return false, true
	}
	ok := e.Target == f.Target
	return ok, ok
}

// Ambiguous reports whether any alive entity is in the may-but-not-must zone of this filter.
func (f *FilterSpec) Ambiguous(m *Model) bool {
	if f.Kind != "relation" {
		return false
	}
	for _, e := range m.Alive {
		mu, ma := f.Match(m, e)
		if mu != ma {
			return true
		}
	}
	return false
}

// Matched returns the must-set in model order.
func (f *FilterSpec) Matched(m *Model) []*MEnt {
	var out []*MEnt
	for _, e := range m.Alive {
		if mu, _ := f.Match(m, e); mu {
			out = append(out, e)
		}
	}
	return out
}

func toIDs(ids []ecs.ID, ts []int) []ecs.ID {
	out := make([]ecs.ID, len(ts))
	for i, t := range ts {
		out[i] = ids[t]
	}
	return out
}

// Build constructs the real filter for a world whose live type index -> ID mapping is ids.
func (f *FilterSpec) Build(ids []ecs.ID) ecs.Filter {
	switch f.Kind {
	case "all":
		return ecs.All(toIDs(ids, f.Ids)...)
	case "without":
		mf := ecs.All(toIDs(ids, f.Ids)...).Without(toIDs(ids, f.Excl)...)
		return &mf
	case "exclusive":
		mf := ecs.All(toIDs(ids, f.Ids)...).Exclusive()
		return &mf
	case "relation":
		rf := ecs.NewRelationFilter(f.L.Build(ids), f.Target)
		return &rf
	case "and":
		return filter.And(f.L.Build(ids), f.R.Build(ids))
	case "or":
		return filter.Or(f.L.Build(ids), f.R.Build(ids))
	case "xor":
		return filter.XOr(f.L.Build(ids), f.R.Build(ids))
	case "not":
		return filter.Not(f.L.Build(ids))
	case "any":
		return filter.Any(toIDs(ids, f.Ids)...)
	case "noneof":
		return filter.NoneOf(toIDs(ids, f.Ids)...)
	case "anynot":
		return filter.AnyNot(toIDs(ids, f.Ids)...)
	}
	panic("bad filter kind " + f.Kind)
}

// genFilter draws a filter expression over the registered live types.
func genFilter(c *cursor, reg []int, depth int, relPct int, pickTarget func() ecs.Entity) *FilterSpec {
	sub := func(max int) []int {
		if len(reg) == 0 {
			return nil
		}
		n := c.n(max + 1)
		var out []int
		var seen uint32
		for i := 0; i < n; i++ {
			t := reg[c.n(len(reg))]
			if seen&(1<<uint(t)) == 0 {
				seen |= 1 << uint(t)
				out = append(out, t)
			}
		}
		return out
	}
	k := c.n(100)
	if relPct > 0 && k < relPct {
		inner := genFilter(c, reg, depth, 0, nil)
		return &FilterSpec{Kind: "relation", L: inner, Target: pickTarget()}
	}
	if depth > 0 && c.n(100) < 30 {
		switch c.n(4) {
		case 0:
			return &FilterSpec{Kind: "and", L: genFilter(c, reg, depth-1, 0, nil), R: genFilter(c, reg, depth-1, 0, nil)}
		case 1:
			return &FilterSpec{Kind: "or", L: genFilter(c, reg, depth-1, 0, nil), R: genFilter(c, reg, depth-1, 0, nil)}
		case 2:
			return &FilterSpec{Kind: "xor", L: genFilter(c, reg, depth-1, 0, nil), R: genFilter(c, reg, depth-1, 0, nil)}
		default:
			return &FilterSpec{Kind: "not", L: genFilter(c, reg, depth-1, 0, nil)}
		}
	}
	switch c.n(7) {
	case 0, 1:
		return &FilterSpec{Kind: "all", Ids: sub(2)}
	case 2:
		return &FilterSpec{Kind: "without", Ids: sub(2), Excl: sub(2)}
	case 3:
		return &FilterSpec{Kind: "exclusive", Ids: sub(3)}
	case 4:
		return &FilterSpec{Kind: "any", Ids: sub(3)}
	case 5:
		return &FilterSpec{Kind: "noneof", Ids: sub(2)}
	default:
		return &FilterSpec{Kind: "anynot", Ids: sub(2)}
	}
}
