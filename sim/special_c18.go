package sim

import (
	"bufio"
	"encoding/json"
	"flag"
	"fmt"
	"os"
	"os/exec"
	"path/filepath"
	"strings"
	"sync"
	"time"
)

func cloneC18(tr *C18Trace) *C18Trace {
	b, _ := json.Marshal(tr)
	var out C18Trace
	json.Unmarshal(b, &out)
	out.Violation, out.Concrete = nil, nil
	return &out
}

func shrinkC18(tr *C18Trace) *C18Trace {
	dl := time.Now().Add(30 * time.Second)
	fails := func(c *C18Trace) bool {
		if time.Now().After(dl) {
			return false
		}
		v, _ := RunC18(c)
		return v != nil
	}
	cur := cloneC18(tr)
	if v, _ := RunC18(cur); v != nil && v.Step+1 < len(cur.Steps) {
		c := cloneC18(cur)
		c.Steps = c.Steps[:v.Step+1]
		if fails(c) {
			cur = c
		}
	}
	for chunk := len(cur.Steps) / 2; chunk >= 1; chunk /= 2 {
		for i := 0; i+chunk <= len(cur.Steps); {
			c := cloneC18(cur)
			c.Steps = append(append([]Step{}, cur.Steps[:i]...), cur.Steps[i+chunk:]...)
			if fails(c) {
				cur = c
			} else {
				i += chunk
			}
		}
	}
	c := cloneC18(cur)
	c.CapInc = 128
	if fails(c) {
		cur = c
	}
	return cur
}

type c18Sum struct {
	Runs    int            `json:"runs"`
	Steps   int            `json:"steps"`
	Stats   map[string]int `json:"stats"`
	Arity   map[string]int `json:"arity"`
	Digests []uint64       `json:"digests"`
}

func c18Worker(args []string) int {
	fs := flag.NewFlagSet("c18worker", flag.ExitOnError)
	seed := fs.Uint64("seed", 1, "")
	idx := fs.Int("idx", 0, "")
	n := fs.Int("n", 1, "")
	runs := fs.Int("runs", 100, "")
	thorough := fs.Bool("thorough", false, "")
	deadline := fs.Int64("deadline", 0, "")
	outdir := fs.String("out", "/verif/replays", "")
	locked := fs.Bool("locked", false, "C09 profile: generic structural entry points on a locked world")
	fs.Parse(args)
	out := bufio.NewWriter(os.Stdout)
	defer out.Flush()
	sum := c18Sum{Stats: map[string]int{}, Arity: map[string]int{}}
	nv := 0
	for k := *idx; k < *runs; k += *n {
		if *deadline > 0 && time.Now().Unix() >= *deadline {
			break
		}
		tr := genC18Trace(Mix(*seed, uint64(k)), *thorough, *locked)
		v, r := RunC18(tr)
		sum.Runs++
		sum.Steps += len(tr.Steps)
		sum.Arity[fmt.Sprintf("%d/%d", tr.N, tr.Perm)]++
		for a, b := range r.stats {
			sum.Stats[a] += b
		}
		d := NewDigest()
		for _, s := range r.Concrete {
			d.Str(s)
		}
		d.U64(uint64(tr.N*3 + tr.Perm))
		sum.Digests = append(sum.Digests, d.Sum())
		if v == nil {
			continue
		}
		if *locked && !contains(v.Also, "lock-not-enforced") {
			sum.Stats["foreign:"+v.Class]++
			continue
		}
		small := shrinkC18(tr)
		v2, r2 := RunC18(small)
		if v2 == nil {
			small = tr
			v2, r2 = RunC18(small)
		}
		if v2 == nil {
			continue
		}
		small.Violation, small.Concrete = v2, r2.Concrete
		os.MkdirAll(*outdir, 0o755)
		path := filepath.Join(*outdir, fmt.Sprintf("%s-generic-%d.json", tr.Property, tr.Seed))
		b, _ := json.MarshalIndent(small, "", " ")
		os.WriteFile(path, b, 0o644)
		b, _ = json.Marshal(c19Viol{K: k, Class: v2.Class, Msg: v2.Msg, File: path})
		out.WriteString("V " + string(b) + "\n")
		nv++
		if nv >= 3 {
			break
		}
	}
	b, _ := json.Marshal(sum)
	out.WriteString("S " + string(b) + "\n")
	return 0
}

func replayC18(path string, quiet bool) int {
	b, err := os.ReadFile(path)
	if err != nil {
		return 2
	}
	var tr C18Trace
	if json.Unmarshal(b, &tr) != nil {
		return 2
	}
	tr.Violation = nil
	v, r := RunC18(&tr)
	if !quiet {
		fmt.Printf("arity %d, permutation %d, registration order %v\n", tr.N, tr.Perm, tr.RegOrder)
		for i, c := range r.Concrete {
			fmt.Printf("  %3d %s\n", i, c)
		}
	}
	if v == nil {
		fmt.Println("replay: no violation")
		return 0
	}
	fmt.Printf("replay: %s\n", v.Error())
	prop := tr.Property
	if prop == "" {
		prop = "C18"
	}
	fmt.Printf("VIOLATION property=%s replay=%s\n", prop, path)
	return 1
}

func specialC18(args []string) int {
	if len(args) > 0 && args[0] == "worker" {
		return c18Worker(args[1:])
	}
	fs := flag.NewFlagSet("C18", flag.ExitOnError)
	tier := fs.String("tier", "quick", "")
	seed := fs.Uint64("seed", 1, "")
	evidence := fs.String("evidence", "", "")
	runs := fs.Int("runs", 0, "")
	budget := fs.Int("budget", 0, "")
	outdir := fs.String("out", "/verif/replays", "")
	prop := fs.String("prop", "C18", "C18, or C09 for the locked-world profile (evidence is merged into the existing file)")
	fs.Parse(args)
	locked := *prop == "C09"
	thorough := *tier == "thorough"
	if *runs == 0 && locked {
		*runs = 40000
		if thorough {
			*runs = 400000
		}
	}
	if *budget == 0 && locked {
		*budget = 15
		if thorough {
			*budget = 120
		}
	}
	if *runs == 0 {
		*runs = 150000
		if thorough {
			*runs = 1000000
		}
	}
	if *budget == 0 {
		*budget = 40
		if thorough {
			*budget = 600
		}
	}
	start := time.Now()
	deadline := start.Add(time.Duration(*budget) * time.Second).Unix()
	bin := selfBin()
	var mu sync.Mutex
	total := c18Sum{Stats: map[string]int{}, Arity: map[string]int{}}
	distinct := map[uint64]struct{}{}
	var viols []c19Viol
	var crashes []string
	var wg sync.WaitGroup
	const W = 16
	for i := 0; i < W; i++ {
		wg.Add(1)
		go func(i int) {
			defer wg.Done()
			a := []string{"special", "C18", "worker", "-seed", fmt.Sprint(*seed), "-idx", fmt.Sprint(i), "-n", fmt.Sprint(W), "-runs", fmt.Sprint(*runs),
				"-deadline", fmt.Sprint(deadline), "-out", *outdir}
			if thorough {
				a = append(a, "-thorough")
			}
			if locked {
				a = append(a, "-locked")
			}
			cmd := exec.CommandContext(watchdogCtx(*budget), bin, a...)
			cmd.Env = append(os.Environ(), "GOMAXPROCS=2")
			out, err := cmd.Output()
			mu.Lock()
			defer mu.Unlock()
			if err != nil {
				crashes = append(crashes, fmt.Sprintf("c18 worker %d: %v", i, err))
			}
			sc := bufio.NewScanner(strings.NewReader(string(out)))
			sc.Buffer(make([]byte, 1<<20), 1<<28)
			for sc.Scan() {
				line := sc.Text()
				if strings.HasPrefix(line, "V ") {
					var v c19Viol
					if json.Unmarshal([]byte(line[2:]), &v) == nil {
						viols = append(viols, v)
					}
				} else if strings.HasPrefix(line, "S ") {
					var s c18Sum
					if json.Unmarshal([]byte(line[2:]), &s) == nil {
						total.Runs += s.Runs
						total.Steps += s.Steps
						for k, v := range s.Stats {
							total.Stats[k] += v
						}
						for k, v := range s.Arity {
							total.Arity[k] += v
						}
						for _, d := range s.Digests {
							distinct[d] = struct{}{}
						}
					}
				}
			}
		}(i)
	}
	wg.Wait()
	wall := time.Since(start).Seconds()
	exit, nViol := 0, 0
	kf := loadKnownFindings("/verif/known_findings.json")
	_ = kf
	for i, v := range viols {
		if i >= 5 {
			break
		}
		c := exec.CommandContext(watchdogCtx(120), bin, "replay", "-q", v.File)
		outb, _ := c.CombinedOutput()
		if strings.Contains(string(outb), "VIOLATION property="+*prop) {
			fmt.Printf("violation: class=%s %s\n", v.Class, v.Msg)
			fmt.Printf("VIOLATION property=%s replay=%s\n", *prop, v.File)
			nViol++
			exit = 1
		} else {
			fmt.Fprintf(os.Stderr, "UNCONFIRMED: %s\n", v.Msg)
			if exit == 0 {
				exit = 2
			}
		}
	}
	for _, c := range crashes {
		fmt.Fprintln(os.Stderr, "CRASH:", c)
		if exit == 0 {
			exit = 2
		}
	}
	if total.Runs == 0 && exit == 0 {
		exit = 2
	}
	if *evidence != "" && locked {
		if b, err := os.ReadFile(*evidence); err == nil {
			var ev map[string]interface{}
			if json.Unmarshal(b, &ev) == nil {
				if cov, ok := ev["coverage"].(map[string]interface{}); ok {
					lockedCalls := map[string]int{}
					for k, v := range total.Stats {
						if strings.HasPrefix(k, "locked") || strings.HasPrefix(k, "foreign:") {
							lockedCalls[k] = v
						}
					}
					cov["generic_entry_points_under_lock"] = map[string]interface{}{
						"what": "generic MapN/Map/Exchange structural calls (arities 1-12) issued while a query is open in the generic world and in its ID-based twin: refusal parity, lock still held, state unchanged",
						"runs": total.Runs, "steps": total.Steps, "calls": lockedCalls, "violations": nViol, "wall_s": wall,
					}
					if nViol > 0 {
						if n, ok := ev["violations"].(float64); ok {
							ev["violations"] = int(n) + nViol
						}
					}
					b, _ = json.MarshalIndent(ev, "", " ")
					os.WriteFile(*evidence, b, 0o644)
				}
			}
		}
	} else if *evidence != "" {
		tr := GenC18Trace(Mix(*seed, 0), thorough)
		_, r := RunC18(tr)
		var warnings []string
		for n := 1; n <= 12; n++ {
			for p := 0; p < 3; p++ {
				if total.Arity[fmt.Sprintf("%d/%d", n, p)] == 0 {
					warnings = append(warnings, fmt.Sprintf("arity %d permutation %d never drawn", n, p))
				}
			}
		}
		ev := map[string]interface{}{
			"property_id": "C18", "tier": *tier, "seed": *seed, "level": "exploration", "wall_s": wall, "violations": nViol,
			"coverage": map[string]interface{}{
				"evaluations":         total.Runs,
				"distinct_nontrivial": len(distinct),
				"rule":                "one evaluation = one run of 30-90 (thorough: up to 300) steps on a pair of worlds: G driven through generic MapN/FilterN/QueryN/Map/Exchange/Resource of a drawn arity (1-12) and type permutation (3 per arity: ascending, descending, with a relation type in the middle), K through the documented ID-based equivalents; compared after every step; distinct = distinct digests of the executed call sequence incl. panic outcomes",
				"samples":             []interface{}{map[string]interface{}{"seed": tr.Seed, "arity": tr.N, "perm": tr.Perm, "regOrder": tr.RegOrder, "ops": r.Concrete}},
				"simulated_steps":     total.Steps,
				"counters":            total.Stats,
				"runs_per_arity_perm": total.Arity,
				"runs_per_hour":       float64(total.Runs) / wall * 3600,
				"reach_warnings":      warnings,
				"real_components":     []string{"generic (all arities via generated wrappers)", "ecs", "listener interface"},
				"stubbed_components":  []string{},
				"not_covered":         "Filter0.WithRelation (Filter0 is driven with With/Without/Exclusive/Register only)",
			},
			"assumptions": []string{"both worlds register the 14 component types in the same drawn order, so IDs coincide and masks can be compared directly"},
		}
		b, _ := json.MarshalIndent(ev, "", " ")
		os.MkdirAll(filepath.Dir(*evidence), 0o755)
		os.WriteFile(*evidence, b, 0o644)
	}
	fmt.Printf("%s %s (generic driver): %d runs, %d steps, %d violations, %.1fs\n", *prop, *tier, total.Runs, total.Steps, nViol, wall)
	return exit
}

func loadKnownFindings(path string) []map[string]interface{} {
	b, err := os.ReadFile(path)
	if err != nil {
		return nil
	}
	var l []map[string]interface{}
	json.Unmarshal(b, &l)
	return l
}
