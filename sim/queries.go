package sim

import (
	"fmt"

	"github.com/mlange-42/arche/ecs"
)

// pushOpen records a query that now holds a lock (primary and shadows).
func (e *Engine) pushOpen(oq *OpenQ, res Result) {
	e.Open = append(e.Open, oq)
	e.S.Open = append(e.S.Open, res.Query)
	for _, sh := range e.Shadows {
		if sh.Kind == "load" {
			continue
		}
		r := e.lastShadow[sh]
		sh.S.Open = append(sh.S.Open, r.Query)
	}
	if len(e.Open) > e.St.Probes["max-lock-depth"] {
		e.St.Probes["max-lock-depth"] = len(e.Open)
	}
}

func (e *Engine) dropOpen(i int) {
	e.Open = append(e.Open[:i], e.Open[i+1:]...)
	e.S.Open = append(e.S.Open[:i], e.S.Open[i+1:]...)
	for _, sh := range e.Shadows {
		if sh.Kind == "load" {
			continue
		}
		sh.S.Open = append(sh.S.Open[:i], sh.S.Open[i+1:]...)
	}
}

// pickSlot draws a filter slot and whether to go through its registered version.
func (e *Engine) pickSlot(c *cursor) (slot int, cached bool) {
	slot = c.n(len(e.Slots))
	k := c.n(1000)
	if c.n(100) < 50 {
		// prefer a registered slot
		var regd []int
		for i, r := range e.Reg {
			if r {
				regd = append(regd, i)
			}
		}
		if len(regd) > 0 {
			slot = regd[c.n(len(regd))]
		} else {
			c.n(1)
		}
	}
	cached = e.Reg[slot] && k < e.P.CachedPermille
	return
}

// positionChecks: at the query's current position every accessor must agree with the world and the model.
func (e *Engine) positionChecks(s *Sys, q *ecs.Query, oq *OpenQ) *Violation {
	h := q.Entity()
	me, ok := e.M.ByH[h]
	if !ok {
		return e.v(s, "query-set", "query is positioned on %v which is not alive", h)
	}
	w := s.W
	mask := q.Mask()
	wm := w.Mask(h)
	if mask != wm {
		return e.v(s, "query-pos", "Query.Mask differs from World.Mask for %v", h)
	}
	set, foreign := s.maskToSet(&mask)
	if foreign || set != me.Cs {
		return e.v(s, "query-pos", "Query.Mask for %v reports %v, model %v", h, listOf(set), listOf(me.Cs))
	}
	qids := q.Ids()
	if len(qids) > 1 && (e.step+int(h.ID()))%3 == 1 {
		first := append([]ecs.ID{}, qids...)
		for i := range qids {
			qids[i] = qids[len(qids)-1]
		}
		again := q.Ids()
		same := len(again) == len(first)
		for i := 0; same && i < len(first); i++ {
			same = again[i] == first[i]
		}
		if !same {
			return e.v(s, "query-pos", "Query.Ids for %v reports other IDs after the slice it returned before was written to (it is documented as a copy)", h)
		}
		qids = first
	}
	iset, dup, f2 := s.idsToSet(qids)
	if dup || f2 || iset != me.Cs {
		return e.v(s, "query-pos", "Query.Ids for %v reports %v, model %v", h, listOf(iset), listOf(me.Cs))
	}
	for t, reg := range s.Reg {
		if !reg {
			continue
		}
		id := s.IDs[t]
		if q.Has(id) != me.Has(t) {
			return e.v(s, "query-pos", "Query.Has(type %d) for %v = %v, model %v", t, h, q.Has(id), me.Has(t))
		}
		p := q.Get(id)
		if p != w.Get(h, id) {
			return e.v(s, "query-pos", "Query.Get(type %d) for %v is not the pointer World.Get returns", t, h)
		}
		if (p != nil) != me.Has(t) {
			return e.v(s, "query-pos", "Query.Get(type %d) for %v nil=%v, model has=%v", t, h, p == nil, me.Has(t))
		}
	}
	if oq != nil && oq.NewTypes&^me.Cs != 0 {
		return e.v(s, "batch-diff", "batch query entity %v lacks components %v that the batch added", h, listOf(oq.NewTypes&^me.Cs))
	}
	myRel := e.M.relOf(me.Cs)
	if r := myRel; r >= 0 && s.Reg[r] {
		if got := q.Relation(s.IDs[r]); got != me.Target {
			return e.v(s, "query-pos", "Query.Relation for %v = %v, model %v", h, got, me.Target)
		}
	}
	// relation call on a component the entity lacks or that is not a relation: documented to panic (at most two
	// types per position, rotating with the step counter)
	tried := 0
	for i := range s.Reg {
		t := (i + e.step) % len(s.Reg)
		if !s.Reg[t] || t == myRel || tried >= 2 {
			continue
		}
		tried++
		panicked := func() (p bool) {
			defer func() { p = recover() != nil }()
			q.Relation(s.IDs[t])
			return
		}()
		if !panicked {
			return e.v(s, "no-panic", "Query.Relation(type %d) for %v did not panic (entity has it: %v, relation type: %v)", t, h, me.Has(t), e.M.RelMask&(1<<uint(t)) != 0)
		}
		e.St.Faults["illegal:query-relation"]++
		if q.Entity() != h {
			return e.v(s, "query-pos", "a refused Query.Relation call moved the query from %v to %v", h, q.Entity())
		}
	}
	return nil
}

func (e *Engine) opQOpen(c *cursor) *Violation {
	if len(e.Open) >= e.P.MaxOpen {
		e.St.Skipped++
		return nil
	}
	slot, cached := e.pickSlot(c)
	spec := e.Slots[slot]
	s := e.S
	op := &COp{Kind: "qopen", Slot: slot, Cached: cached, Rel: -1}
	// reference walk with a first query (exhausted by Next, which releases its lock)
	r1, ok, v := e.issue(op, "")
	if v != nil || !ok {
		return v
	}
	q1 := r1.Query
	var seq []ecs.Entity
	for q1.Next() {
		seq = append(seq, q1.Entity())
		if v := e.positionChecks(s, q1, nil); v != nil {
			return v
		}
	}
	for _, sh := range e.Shadows {
		if r, ok := e.lastShadow[sh]; ok && r.Query != nil {
			r.Query.Close()
		}
	}
	e.logEnts("walk", seq)
	set, dup := toSet(seq)
	if dup {
		return e.viol("query-set", op, "filter %s visits an entity twice", spec)
	}
	for _, me := range e.M.Alive {
		must, may := spec.Match(e.M, me)
		if must && !set[me.H] {
			return e.viol(e.qclass(cached), op, "filter %s (cached=%v) misses matching entity %v %v", spec, cached, me.H, listOf(me.Cs))
		}
		if !may && set[me.H] {
			return e.viol(e.qclass(cached), op, "filter %s (cached=%v) selects non-matching entity %v %v", spec, cached, me.H, listOf(me.Cs))
		}
	}
	if len(set) > 0 {
		e.St.Probes["query-nonempty"]++
	}
	// the long-lived query
	r2 := s.Apply(op)
	if r2.Panicked {
		return e.viol("unexpected-panic", op, "Query panicked: %s", r2.Msg)
	}
	e.lastShadow = map[*Shadow]Result{}
	for _, sh := range e.Shadows {
		if sh.Kind == "load" {
			continue
		}
		e.lastShadow[sh] = sh.S.Apply(op)
	}
	oq := &OpenQ{Seq: seq, ExpSet: set, Pos: -1, Slot: slot, Cached: cached, Rel: -1}
	e.pushOpen(oq, r2)
	if (e.step+slot)%3 == 0 {
		// Count is asked for the first time only after the iteration has started (see opQNext)
		oq.LateCount = true
		return nil
	}
	if cnt := r2.Query.Count(); cnt != len(seq) {
		return e.viol("query-pos", op, "Count()=%d before iteration, reference walk visited %d", cnt, len(seq))
	}
	return nil
}

func (e *Engine) qclass(cached bool) string {
	if cached {
		return "cache-diff"
	}
	return "query-set"
}

// advanced: the open query moved to position pos (entity h).
func (e *Engine) advanced(i int, h ecs.Entity) *Violation {
	oq := e.Open[i]
	e.logEnt(h)
	q := e.S.Open[i]
	if oq.Batch {
		if !oq.ExpSet[h] {
			return e.viol("batch-diff", nil, "batch query visits %v which the batch did not affect", h)
		}
		for _, x := range oq.Seq {
			if x == h {
				return e.viol("batch-diff", nil, "batch query visits %v twice", h)
			}
		}
		// Seq grows as entities are discovered; skipped positions (Step) are unknown and marked zero
		for len(oq.Seq) < oq.Pos {
			oq.Seq = append(oq.Seq, ecs.Entity{})
		}
		oq.Seq = append(oq.Seq, h)
		if at, ok := oq.At[oq.Pos]; ok && at != h {
			return e.viol("query-pos", nil, "EntityAt(%d) was %v but iteration reaches %v there", oq.Pos, at, h)
		}
	} else if oq.Seq[oq.Pos] != h {
		return e.viol("query-pos", nil, "position %d holds %v, reference iteration had %v", oq.Pos, h, oq.Seq[oq.Pos])
	}
	return e.positionChecks(e.S, q, oq)
}

// exhausted: the query returned false; it has released its lock.
func (e *Engine) exhausted(i int) *Violation {
	oq := e.Open[i]
	if oq.Batch {
		n := 0
		for _, x := range oq.Seq {
			if !x.IsZero() {
				n++
			}
		}
		// only a pure Next walk sees every entity; with Step we at least know the length
	}
	return e.releaseQuery(i, "exhaust")
}

// releaseQuery removes the open query from the ledger and delivers its deferred events.
func (e *Engine) releaseQuery(i int, how string) *Violation {
	oq := e.Open[i]
	for _, sh := range e.Shadows {
		if sh.Kind == "load" {
			continue
		}
		q := sh.S.Open[i]
		if q != nil {
			func() {
				defer func() { recover() }()
				q.Close()
			}()
		}
	}
	e.dropOpen(i)
	e.St.Probes["release:"+how]++
	if oq.HasDef {
		e.expEvents = append(e.expEvents, oq.Deferred...)
		e.expLockedAt = len(e.Open) > 0
		e.pendingDef--
	}
	return nil
}

func (e *Engine) closeQuery(i int, how string) *Violation {
	q := e.S.Open[i]
	var msg string
	func() {
		defer func() {
			if r := recover(); r != nil {
				msg = fmt.Sprint(r)
			}
		}()
		q.Close()
	}()
	if msg != "" {
		return e.viol("lock-release", nil, "Close panicked: %s", msg)
	}
	if e.Open[i].Pos < 0 {
		e.St.Probes["closed-before-first-next"]++
	} else {
		e.St.Probes["closed-midway"]++
	}
	return e.releaseQuery(i, how)
}

func (e *Engine) opQClose(c *cursor) *Violation {
	if len(e.Open) == 0 {
		e.St.Skipped++
		return nil
	}
	i := c.n(len(e.Open))
	e.St.Ops["qclose"]++
	if e.keepConcrete {
		e.Concrete = append(e.Concrete, fmt.Sprintf("qclose #%d", i))
	}
	return e.closeQuery(i, "Close")
}

func (e *Engine) opQNext(c *cursor) *Violation {
	if len(e.Open) == 0 {
		e.St.Skipped++
		return nil
	}
	i := c.n(len(e.Open))
	oq := e.Open[i]
	q := e.S.Open[i]
	act := c.n(100)
	arg := c.n(1 << 20)
	ill := e.illegalIntent(c)
	e.St.Ops["qnext"]++
	total := len(oq.ExpSet)
	call := func(f func()) (msg string, panicked bool) {
		defer func() {
			if r := recover(); r != nil {
				msg, panicked = fmt.Sprint(r), true
			}
		}()
		f()
		return
	}
	note := func(s string) {
		if e.keepConcrete {
			e.Concrete = append(e.Concrete, fmt.Sprintf("q#%d %s", i, s))
		}
	}
	switch {
	case act < 55: // Next
		note("Next")
		var ok bool
		if msg, p := call(func() { ok = q.Next() }); p {
			return e.viol("unexpected-panic", nil, "Query.Next panicked: %s", msg)
		}
		wantOK := oq.Pos+1 < total
		if ok != wantOK {
			return e.viol("query-pos", nil, "Next()=%v at position %d of %d", ok, oq.Pos, total)
		}
		if !ok {
			return e.exhausted(i)
		}
		oq.Pos++
		if oq.LateCount && arg%2 == 0 {
			oq.LateCount = false
			h := q.Entity()
			var cnt int
			if msg, p := call(func() { cnt = q.Count() }); p {
				return e.viol("unexpected-panic", nil, "Query.Count in the middle of an iteration panicked: %s", msg)
			}
			if cnt != total {
				return e.viol("query-pos", nil, "Count()=%d, asked for the first time at position %d, the query visits %d entities", cnt, oq.Pos, total)
			}
			if q.Entity() != h {
				return e.viol("query-pos", nil, "Count() in the middle of an iteration moved the query from %v to %v", h, q.Entity())
			}
			e.St.Probes["count-first-asked-mid-iteration"]++
		}
		return e.advanced(i, q.Entity())
	case act < 70: // Step
		k := 1 + arg%4
		if arg%11 == 0 {
			k = 1 + arg%(total+3)
		}
		if ill {
			k = -(arg % 2)
			note(fmt.Sprintf("Step(%d) ILLEGAL", k))
			e.St.Faults["illegal-arg"]++
			e.St.Faults["illegal:bad-step"]++
			if _, p := call(func() { q.Step(k) }); !p {
				return e.viol("no-panic", nil, "Query.Step(%d) did not panic", k)
			}
			return override(e.checkAll(e.S, ""), "state-after-panic")
		}
		note(fmt.Sprintf("Step(%d)", k))
		var ok bool
		if msg, p := call(func() { ok = q.Step(k) }); p {
			return e.viol("unexpected-panic", nil, "Query.Step(%d) panicked: %s", k, msg)
		}
		wantOK := oq.Pos+k < total
		if ok != wantOK {
			return e.viol("query-pos", nil, "Step(%d)=%v from position %d of %d", k, ok, oq.Pos, total)
		}
		e.St.Probes["step-used"]++
		if !ok {
			return e.exhausted(i)
		}
		oq.Pos += k
		return e.advanced(i, q.Entity())
	case act < 80: // Count
		note("Count")
		var n int
		if msg, p := call(func() { n = q.Count() }); p {
			return e.viol("unexpected-panic", nil, "Query.Count panicked: %s", msg)
		}
		if n != total {
			cl := "query-pos"
			if oq.Batch {
				cl = "batch-diff"
			}
			return e.viol(cl, nil, "Count()=%d, expected %d", n, total)
		}
	case act < 90: // EntityAt
		idx := 0
		if total > 0 {
			idx = arg % total
		}
		if ill || total == 0 {
			if arg%2 == 0 {
				idx = -1 - arg%3
			} else {
				idx = total + arg%3
			}
			note(fmt.Sprintf("EntityAt(%d) ILLEGAL", idx))
			e.St.Faults["illegal-arg"]++
			e.St.Faults["illegal:bad-index"]++
			if _, p := call(func() { q.EntityAt(idx) }); !p {
				return e.viol("no-panic", nil, "Query.EntityAt(%d) with Count %d did not panic", idx, total)
			}
			return override(e.checkAll(e.S, ""), "state-after-panic")
		}
		note(fmt.Sprintf("EntityAt(%d)", idx))
		var h ecs.Entity
		if msg, p := call(func() { h = q.EntityAt(idx) }); p {
			return e.viol("unexpected-panic", nil, "Query.EntityAt(%d) panicked: %s", idx, msg)
		}
		e.logEnt(h)
		if oq.Batch {
			if !oq.ExpSet[h] {
				return e.viol("batch-diff", nil, "EntityAt(%d)=%v is not among the affected entities", idx, h)
			}
			if idx < len(oq.Seq) && !oq.Seq[idx].IsZero() && oq.Seq[idx] != h {
				return e.viol("query-pos", nil, "EntityAt(%d)=%v but iteration visited %v there", idx, h, oq.Seq[idx])
			}
			if prev, ok := oq.At[idx]; ok && prev != h {
				return e.viol("query-pos", nil, "EntityAt(%d) changed from %v to %v", idx, prev, h)
			}
			oq.At[idx] = h
		} else if oq.Seq[idx] != h {
			return e.viol("query-pos", nil, "EntityAt(%d)=%v, iteration order has %v", idx, h, oq.Seq[idx])
		}
		e.St.Probes["entityat-used"]++
	default: // write through the query's Get pointer (legal while locked)
		if oq.Pos < 0 || oq.Pos >= total {
			e.St.Skipped++
			return nil
		}
		h := q.Entity()
		me := e.M.ByH[h]
		if me == nil || me.Cs == 0 {
			e.St.Skipped++
			return nil
		}
		ts := listOf(me.Cs)
		t := ts[arg%len(ts)]
		val := e.genVal(t)
		note(fmt.Sprintf("write type %d of %v", t, h))
		p := q.Get(e.S.IDs[t])
		if p == nil {
			return e.viol("query-pos", nil, "Query.Get(type %d) nil for %v which has it", t, h)
		}
		e.S.WriteValue(t, p, val)
		me.Val[t] = val
		e.touched[h] = true
		for _, sh := range e.Shadows {
			if sh.Kind == "fresh" {
				if p2 := sh.S.W.Get(h, sh.S.IDs[t]); p2 != nil {
					sh.S.WriteValue(t, p2, val)
				}
			}
		}
		e.St.Probes["query-write"]++
	}
	return nil
}

// opLockMax: lock exhaustion. Open queries until every lock bit is taken, one more must panic and change nothing,
// then release them all (alternating release paths).
func (e *Engine) opLockMax(c *cursor) *Violation {
	s := e.S
	var qs []*ecs.Query
	limit := ecs.MaskTotalBits - len(e.Open)
	for i := 0; i < limit; i++ {
		q := s.W.Query(ecs.All())
		qs = append(qs, &q)
	}
	e.St.Faults["lock-exhaustion"]++
	panicked := false
	func() {
		defer func() {
			if r := recover(); r != nil {
				panicked = true
			}
		}()
		q := s.W.Query(ecs.All())
		qs = append(qs, &q)
	}()
	var v *Violation
	if !panicked {
		v = e.viol("lock-limit", nil, "query number %d did not panic", ecs.MaskTotalBits+1)
	}
	if !s.W.IsLocked() {
		v = e.viol("lock-ledger", nil, "world unlocked with %d queries open", len(qs))
	}
	order := c.n(3)
	for k := range qs {
		i := k
		if order == 1 {
			i = len(qs) - 1 - k
		} else if order == 2 {
			i = (k*7 + 3) % len(qs)
			if len(qs)%7 == 0 {
				i = k
			}
		}
		q := qs[i]
		if k%2 == 0 {
			q.Close()
		} else {
			for q.Next() {
			}
		}
	}
	if v != nil {
		return v
	}
	if s.W.IsLocked() != e.locked() {
		return e.viol("lock-ledger", nil, "after releasing all extra queries IsLocked()=%v, %d open", s.W.IsLocked(), len(e.Open))
	}
	return override(e.checkAll(s, ""), "state-after-locked-call")
}
