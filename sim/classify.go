package sim

import (
	"sort"
	"strings"
)

// classProps: which properties a violation class is a violation of. A class may belong to several properties
// when the observed fact contradicts each of their statements.
var classProps = map[string][]string{
	"value":                    {"C01"},
	"compset":                  {"C01"},
	"handle":                   {"C02"},
	"alive-count":              {"C02"},
	"alive-set":                {"C02", "C03"},
	"query-set":                {"C03"},
	"query-pos":                {"C03"},
	"target":                   {"C05"},
	"target-accepted":          {"C05", "C10"},
	"second-relation-accepted": {"C05", "C10"},
	"leak-under-target":        {"C05", "C06"},
	"target-census-missing":    {"C05"},
	"target-death":             {"C06"},
	"stats":                    {"C06"},
	"stale-under-target":       {"C06"},
	"cache-diff":               {"C07"},
	"batch-diff":               {"C08"},
	"lock-not-enforced":        {"C09"},
	"lock-ledger":              {"C09"},
	"lock-limit":               {"C09"},
	"lock-release":             {"C09"},
	"state-after-locked-call":  {"C09"},
	"not-usable-after-unlock":  {"C09"},
	"no-panic":                 {"C10"},
	"state-after-panic":        {"C10"},
	"not-usable":               {"C10"},
	"event":                    {"C11"},
	"subscription":             {"C12"},
	"nondeterminism":           {"C13"},
	"gc-integrity":             {"C14"},
	"gc-retention":             {"C14"},
	"reset-diff":               {"C15"},
	"registry":                 {"C16"},
	"type-limit":               {"C16", "C10"},
	"dump-diff":                {"C17"},
	"load-accepted":            {"C17"},
	"generic-diff":             {"C18"},
	"cross-talk":               {"C19"},
	"race":                     {"C19"},
	"resource":                 {"C20"},
	"resource-no-panic":        {"C20", "C10"},
}

func uniq(l []string) []string {
	m := map[string]bool{}
	var out []string
	for _, x := range l {
		if !m[x] {
			m[x] = true
			out = append(out, x)
		}
	}
	sort.Strings(out)
	return out
}

// Attribute decides which properties a violation found on trace tr contradicts.
// For a legal call that panicked the blame is assigned by the kind of operation and by differential
// re-execution (without listener / without registered filters / without injected illegal calls).
func Attribute(tr *Trace, v *Violation) []string {
	if ps, ok := classProps[v.Class]; ok {
		out := append([]string{}, ps...)
		for _, a := range v.Also {
			out = append(out, classProps[a]...)
		}
		// C08: if the same trace is clean when every batch step is executed as the loop of single-entity calls,
		// the batch operation does not leave the world in the state the singles would.
		if tr != nil && tr.Plan != nil && v.World == "primary" && !contains(out, "C08") && hasOp(tr, "batch") && !tr.Plan.BatchAsSingles {
			alt := cloneTrace(tr)
			alt.Plan.BatchAsSingles = true
			if v2, _ := RunTrace(alt, false); v2 == nil {
				out = append(out, "C08")
			}
		}
		// C16 ("all IDs usable whenever the type was registered"): if the same trace is clean with every type registered
		// up front at dense IDs, the failure depends on registration time or ID placement.
		if tr != nil && tr.Plan != nil && v.World == "primary" && !contains(out, "C16") {
			switch v.Class {
			case "value", "compset", "query-set", "query-pos", "batch-diff", "alive-set", "target":
				moved := false
				alt := cloneTrace(tr)
				for i := range alt.Plan.Types {
					if alt.Plan.Types[i].Late || alt.Plan.Types[i].Fillers > 0 {
						moved = true
					}
					alt.Plan.Types[i].Late = false
					alt.Plan.Types[i].Fillers = 0
				}
				if alt.Plan.FillToLimit {
					moved = true
					alt.Plan.FillToLimit = false
				}
				if moved {
					alt.Steps = dropOps(alt.Steps, "regtype")
					if v2, _ := RunTrace(alt, false); v2 == nil {
						out = append(out, "C16")
					}
				}
			}
		}
		// C06 ("removing a relation target never disturbs anything else ... storage retired because its target died and
		// later reused starts empty"): if the same trace is clean when no entity is removed while it is a relation target,
		// the mismatch is something a target's death did to the rest of the world.
		if tr != nil && tr.Plan != nil && v.World == "primary" && !contains(out, "C06") && !tr.Plan.NoTargetDeath && !tr.Plan.TargetsOnly {
			switch v.Class {
			case "value", "compset", "query-set", "query-pos", "cache-diff", "batch-diff", "alive-set", "alive-count", "target", "target-census-missing", "handle":
				alt := cloneTrace(tr)
				alt.Plan.NoTargetDeath = true
				if v2, _ := RunTrace(alt, false); v2 == nil {
					out = append(out, "C06")
				}
			}
		}
		for _, f := range v.Facts {
			if strings.HasPrefix(f, "underlying:") {
				// a mismatch found right after a rejected call (or in a twin world) is blamed on the rejected call's
				// property, and it still is the mismatch it is: the state contradicts that class's properties too
				out = append(out, classProps[strings.TrimPrefix(f, "underlying:")]...)
			}
		}
		return uniq(out)
	}
	var out []string
	switch v.Class {
	case "unexpected-panic", "oracle-panic", "hang", "crash":
		if v.Op != nil {
			switch v.Op.Kind {
			case "new":
				out = append(out, "C01", "C02")
			case "newbatch":
				out = append(out, "C02", "C08")
			case "rm":
				out = append(out, "C02")
			case "xchg", "set":
				out = append(out, "C01")
				if v.Op.HasTgt {
					out = append(out, "C05")
				}
			case "setrel":
				out = append(out, "C05")
			case "batch":
				out = append(out, "C08")
				if v.Op.Cached {
					out = append(out, "C07")
				}
			case "reset":
				out = append(out, "C15")
			case "qopen":
				out = append(out, "C03")
				if v.Op.Cached {
					out = append(out, "C07")
				}
			case "freg", "funreg":
				out = append(out, "C07")
			case "res":
				out = append(out, "C20")
			case "read":
				out = append(out, "C01")
			}
		} else {
			// iteration calls and observation reads
			m := v.Msg
			switch {
			case strings.Contains(m, "checkSlot") && strings.Contains(m, "Cached"):
				out = append(out, "C03", "C07")
			case strings.Contains(m, "checkSlot"), strings.Contains(m, "Query."), strings.Contains(m, "positionChecks"):
				out = append(out, "C03")
			case strings.Contains(m, "census"):
				out = append(out, "C05", "C06")
			case strings.Contains(m, "checkEntity"):
				out = append(out, "C01")
			case strings.Contains(m, "Stats"):
				out = append(out, "C06")
			case strings.Contains(m, "checkRegistry"):
				out = append(out, "C16")
			default:
				out = append(out, "C03")
			}
		}
		for _, a := range v.Also {
			out = append(out, classProps[a]...)
		}
		// differential attribution
		if tr != nil && tr.Plan != nil {
			if tr.Plan.Listener != "none" && tr.Plan.Listener != "" {
				alt := cloneTrace(tr)
				alt.Plan.Listener = "none"
				if v2, _ := RunTrace(alt, false); v2 == nil {
					out = append(out, "C11")
				}
			}
			if tr.Plan.CachedPermille > 0 || hasOp(tr, "freg") {
				alt := cloneTrace(tr)
				alt.Plan.CachedPermille = 0
				alt.Steps = dropOps(alt.Steps, "freg")
				if v2, _ := RunTrace(alt, false); v2 == nil {
					out = append(out, "C07")
				}
			}
			if tr.Plan.IllegalPermille > 0 {
				alt := cloneTrace(tr)
				alt.Plan.IllegalPermille = 0
				alt.Plan.DeadPermille = 0
				if v2, _ := RunTrace(alt, false); v2 == nil {
					out = append(out, "C10")
				}
			}
			if hasOp(tr, "qopen") || hasOp(tr, "lockmax") {
				alt := cloneTrace(tr)
				alt.Steps = dropOps(alt.Steps, "qopen", "lockmax", "lockenum", "sweep")
				if v2, _ := RunTrace(alt, false); v2 == nil {
					out = append(out, "C09")
				}
			}
			if !tr.Plan.NoTargetDeath && !tr.Plan.TargetsOnly && !contains(out, "C06") {
				alt := cloneTrace(tr)
				alt.Plan.NoTargetDeath = true
				if v2, _ := RunTrace(alt, false); v2 == nil {
					out = append(out, "C06")
				}
			}
			if hasOp(tr, "reset") {
				alt := cloneTrace(tr)
				alt.Steps = dropOps(alt.Steps, "reset")
				if v2, _ := RunTrace(alt, false); v2 == nil {
					out = append(out, "C15")
				}
			}
			if hasOp(tr, "regtype") || tr.Plan.FillToLimit {
				alt := cloneTrace(tr)
				for i := range alt.Plan.Types {
					alt.Plan.Types[i].Late = false
					alt.Plan.Types[i].Fillers = 0
				}
				alt.Plan.FillToLimit = false
				alt.Steps = dropOps(alt.Steps, "regtype")
				if v2, _ := RunTrace(alt, false); v2 == nil {
					out = append(out, "C16")
				}
			}
		}
	}
	return uniq(out)
}

func contains(l []string, x string) bool {
	for _, y := range l {
		if y == x {
			return true
		}
	}
	return false
}

// DirectlyAttributed: does the violation's class (or a class it also establishes) belong to prop without any
// differential re-execution?
func DirectlyAttributed(v *Violation, prop string) bool {
	if contains(classProps[v.Class], prop) {
		return true
	}
	for _, a := range v.Also {
		if contains(classProps[a], prop) {
			return true
		}
	}
	for _, f := range v.Facts {
		if strings.HasPrefix(f, "underlying:") && contains(classProps[strings.TrimPrefix(f, "underlying:")], prop) {
			return true
		}
	}
	return false
}

func hasOp(tr *Trace, name string) bool {
	for _, s := range tr.Steps {
		if s.Op == name {
			return true
		}
	}
	return false
}

func dropOps(steps []Step, names ...string) []Step {
	var out []Step
	for _, s := range steps {
		drop := false
		for _, n := range names {
			if s.Op == n {
				drop = true
			}
		}
		if !drop {
			out = append(out, s)
		}
	}
	return out
}
