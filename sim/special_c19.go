package sim

import (
	"bufio"
	"encoding/json"
	"flag"
	"fmt"
	"os"
	"os/exec"
	"path/filepath"
	"strings"
	"sync"
	"time"
)

// ---------------------------------------------------------------------------------------------------------
// C19: isolation of worlds.
//   cross-talk half (deterministic): K worlds, each with its own trace. Each trace alone -> digest L_i; all
//   interleaved step by step under the sched stream in one goroutine -> L'_i; require L'_i == L_i and no oracle trip.
//   race half: the same traces on K real goroutines in a -race build; any report mentioning arche code is a
//   violation. This is the one place where the schedule is not chosen by the simulator (DESIGN.md).
// ---------------------------------------------------------------------------------------------------------

// c19Group builds the K traces of group k. Some worlds register the same Go types as world 0 in another order.
func c19Group(seed uint64, k int, thorough bool) []*Trace { return c19GroupX(seed, k, thorough, false) }

// c19GroupX: with race set (the groups that run on real goroutines under the race detector) the worlds are short and
// small - the detector slows everything down tenfold and what it looks for is shared state, which shows at once - and
// half of the groups have a component of several kilobytes in every world.
func c19GroupX(seed uint64, k int, thorough, race bool) []*Trace {
	gs := Mix(seed, uint64(k))
	r := NewRng(gs, 77)
	K := 2 + r.Intn(5)
	// in one group out of five every world has one component of several kilobytes (whatever the library keeps per
	// process for large components is then touched by all of them)
	groupHuge := r.Intn(5) == 0
	if race {
		groupHuge = r.Intn(3) > 0
	}
	var trs []*Trace
	for j := 0; j < K; j++ {
		tr := GenTrace("C19", Mix(gs, uint64(j+1)), thorough)
		if groupHuge && tr.Plan.Wide == "" {
			for i := range tr.Plan.Types {
				if kd := tr.Plan.Types[i].Kind; kd == "bytes" || kd == "rel" {
					tr.Plan.Types[i].Size = []int{4097, 5000, 9000, 16385, 70000}[r.Intn(5)]
					tr.Plan.HugeComp = true
					if tr.Plan.EntityCap > 40 {
						tr.Plan.EntityCap = 10 + r.Intn(30)
					}
					if tr.Plan.CapInc > 8 {
						tr.Plan.CapInc = 1 + r.Intn(8)
					}
					break
				}
			}
		}
		if thorough {
			if len(tr.Steps) > 200 {
				tr.Steps = tr.Steps[:200]
			}
		}
		tr.Plan.GCPermille = 0
		if race {
			if len(tr.Steps) > 90 {
				tr.Steps = tr.Steps[:90]
			}
			if tr.Plan.EntityCap > 400 {
				tr.Plan.EntityCap = 200 + r.Intn(200)
			}
		}
		for i := range tr.Plan.Types {
			tr.Plan.Types[i].UID = 1000*(j+1) + i + 1
		}
		if j > 0 && r.Intn(2) == 0 {
			// same Go types as world 0, registered in a different order (and possibly at other IDs)
			base := trs[0].Plan.Types
			perm := r.Intn(1 << 30)
			tr.Plan.Types = nil
			n := len(base)
			for i := 0; i < n; i++ {
				t := base[(i*7+perm)%n]
				if n%7 == 0 {
					t = base[(i+perm)%n]
				}
				t.Fillers = r.Intn(3)
				t.Late = r.Intn(4) == 0
				tr.Plan.Types = append(tr.Plan.Types, t)
			}
			// ptr kinds are bound to static Go types; keep them out of shared plans
		}
		tr.Property = "C19"
		trs = append(trs, tr)
	}
	return trs
}

// runSolo runs every trace alone.
func runSolo(trs []*Trace) ([]uint64, []*Violation) {
	ds := make([]uint64, len(trs))
	vs := make([]*Violation, len(trs))
	for i, tr := range trs {
		v, e := RunTrace(tr, false)
		ds[i], vs[i] = e.ObsDigest(), v
	}
	return ds, vs
}

// nestedSteps counts steps of one world made inside another world's notification (evidence).
var nestedSteps int

// runInterleaved steps all engines in one goroutine; the sched stream picks who moves.
func runInterleaved(trs []*Trace, seed uint64) ([]uint64, []*Violation, int) {
	n := len(trs)
	es := make([]*Engine, n)
	pos := make([]int, n)
	vs := make([]*Violation, n)
	done := make([]bool, n)
	for i, tr := range trs {
		es[i] = NewEngine(tr.Plan)
		if v := es[i].setupShadows(); v != nil {
			vs[i], done[i] = v, true
		}
	}
	r := NewRng(seed, StreamSched)
	left := 0
	for i := range trs {
		if !done[i] {
			left++
		}
	}
	// nested interleaving: while one world is in the middle of delivering an event, another world makes a whole step
	// (a listener that drives a second simulation, or simply two simulations whose callbacks call into each other)
	rn := NewRng(seed, StreamFault)
	depth := 0
	for i := range es {
		i := i
		es[i].S.OnNotify = func() {
			if depth > 0 || rn.Intn(3) != 0 {
				return
			}
			j := rn.Intn(n)
			if j == i || done[j] || pos[j] >= len(trs[j].Steps) {
				return
			}
			depth++
			nestedSteps++
			if v := es[j].StepOnce(trs[j], pos[j]); v != nil {
				vs[j], done[j] = v, true
				left--
			} else {
				pos[j]++
			}
			depth--
		}
	}
	switches := 0
	last := -1
	for left > 0 {
		i := r.Intn(n)
		if done[i] {
			continue
		}
		if i != last {
			switches++
			last = i
		}
		if pos[i] >= len(trs[i].Steps) {
			vs[i] = es[i].Finish()
			done[i] = true
			left--
			continue
		}
		if v := es[i].StepOnce(trs[i], pos[i]); v != nil {
			if !done[i] {
				vs[i], done[i] = v, true
				left--
			}
			continue
		}
		pos[i]++
	}
	for i := range es {
		es[i].S.OnNotify = nil
	}
	ds := make([]uint64, n)
	for i := range es {
		ds[i] = es[i].ObsDigest()
	}
	return ds, vs, switches
}

// c19Bad re-evaluates the cross-talk condition for a group of traces.
func c19Bad(trs []*Trace, seed uint64, k int) bool {
	solo, sv := runSolo(trs)
	inter, iv, _ := runInterleaved(trs, Mix(seed, uint64(k)))
	for i := range trs {
		switch {
		case (sv[i] == nil) != (iv[i] == nil):
			return true
		case sv[i] != nil && contains(Attribute(trs[i], sv[i]), "C19"):
			return true
		case sv[i] == nil && solo[i] != inter[i]:
			return true
		}
	}
	return false
}

// shrinkC19 minimises a failing group: drop whole worlds, then chunks of steps per world (bounded).
func shrinkC19(trs []*Trace, seed uint64, k int) []*Trace {
	budget := 250
	dl := time.Now().Add(40 * time.Second)
	bad := func(c []*Trace) bool {
		if budget <= 0 || time.Now().After(dl) {
			return false
		}
		budget--
		return c19Bad(c, seed, k)
	}
	if !bad(trs) {
		return trs
	}
	cur := trs
	for i := 0; i < len(cur) && len(cur) > 1; {
		c := append(append([]*Trace{}, cur[:i]...), cur[i+1:]...)
		if bad(c) {
			cur = c
		} else {
			i++
		}
	}
	for w := range cur {
		for chunk := len(cur[w].Steps) / 2; chunk >= 1; chunk /= 2 {
			for i := 0; i+chunk <= len(cur[w].Steps); {
				t2 := cloneTrace(cur[w])
				t2.Property = cur[w].Property
				t2.Steps = append(append([]Step{}, cur[w].Steps[:i]...), cur[w].Steps[i+chunk:]...)
				c := append([]*Trace{}, cur...)
				c[w] = t2
				if bad(c) {
					cur = c
				} else {
					i += chunk
				}
			}
		}
	}
	return cur
}

type c19Viol struct {
	K     int    `json:"k"`
	Class string `json:"class"`
	Msg   string `json:"msg"`
	File  string `json:"file"`
}

type c19Sum struct {
	Groups   int            `json:"groups"`
	Worlds   int            `json:"worlds"`
	Steps    int            `json:"steps"`
	Switches int            `json:"switches"`
	Nested   int            `json:"nested"`
	Shared   int            `json:"shared"`
	Digests  []uint64       `json:"digests"`
	Foreign  map[string]int `json:"foreign"`
}

type c19File struct {
	Property  string     `json:"property"`
	Build     string     `json:"build"`
	Seed      uint64     `json:"seed"`
	K         int        `json:"k"`
	Thorough  bool       `json:"thorough"`
	Traces    []*Trace   `json:"traces"`
	Violation *Violation `json:"violation,omitempty"`
}

func c19Worker(args []string) int {
	fs := flag.NewFlagSet("c19worker", flag.ExitOnError)
	seed := fs.Uint64("seed", 1, "")
	idx := fs.Int("idx", 0, "")
	n := fs.Int("n", 1, "")
	runs := fs.Int("runs", 100, "")
	thorough := fs.Bool("thorough", false, "")
	deadline := fs.Int64("deadline", 0, "")
	outdir := fs.String("out", "/verif/replays", "")
	fs.Parse(args)
	out := bufio.NewWriter(os.Stdout)
	defer out.Flush()
	sum := c19Sum{Foreign: map[string]int{}}
	for k := *idx; k < *runs; k += *n {
		if *deadline > 0 && time.Now().Unix() >= *deadline {
			break
		}
		trs := c19Group(*seed, k, *thorough)
		solo, sv := runSolo(trs)
		inter, iv, sw := runInterleaved(trs, Mix(*seed, uint64(k)))
		sum.Groups++
		sum.Worlds += len(trs)
		sum.Switches += sw
		sum.Nested = nestedSteps
		for i, tr := range trs {
			sum.Steps += len(tr.Steps)
			if i > 0 && len(tr.Plan.Types) > 0 && tr.Plan.Types[0].UID < 2000 {
				sum.Shared++
			}
		}
		sum.Digests = append(sum.Digests, solo...)
		var viol *Violation
		for i := range trs {
			switch {
			case sv[i] == nil && iv[i] != nil:
				viol = &Violation{Class: "cross-talk", Msg: fmt.Sprintf("world %d of %d: clean alone, but interleaved with the others: %s", i, len(trs), iv[i].Error())}
			case sv[i] != nil && iv[i] == nil:
				viol = &Violation{Class: "cross-talk", Msg: fmt.Sprintf("world %d of %d: clean when interleaved, but alone after the other worlds ran in the same process: %s", i, len(trs), sv[i].Error())}
			case sv[i] != nil && iv[i] != nil:
				if contains(Attribute(trs[i], sv[i]), "C19") {
					viol = &Violation{Class: sv[i].Class, Msg: fmt.Sprintf("world %d of %d: %s", i, len(trs), sv[i].Error())}
				} else {
					sum.Foreign[sv[i].Class]++
				}
			case solo[i] != inter[i]:
				viol = &Violation{Class: "cross-talk", Msg: fmt.Sprintf("world %d of %d: observable log differs between running alone (%x) and interleaved (%x)", i, len(trs), solo[i], inter[i])}
			}
			if viol != nil {
				break
			}
		}
		if viol != nil {
			trs = shrinkC19(trs, *seed, k)
			f := c19File{Property: "C19", Build: "special-C19", Seed: *seed, K: k, Thorough: *thorough, Traces: trs, Violation: viol}
			os.MkdirAll(*outdir, 0o755)
			path := filepath.Join(*outdir, fmt.Sprintf("C19-%d-%d.json", *seed, k))
			b, _ := json.MarshalIndent(f, "", " ")
			os.WriteFile(path, b, 0o644)
			b, _ = json.Marshal(c19Viol{K: k, Class: viol.Class, Msg: viol.Msg, File: path})
			out.WriteString("V " + string(b) + "\n")
		}
	}
	b, _ := json.Marshal(sum)
	out.WriteString("S " + string(b) + "\n")
	return 0
}

// c19Race runs groups of worlds on real goroutines (binary built with -race).
func c19Race(args []string) int {
	fs := flag.NewFlagSet("c19race", flag.ExitOnError)
	seed := fs.Uint64("seed", 1, "")
	idx := fs.Int("idx", 0, "")
	n := fs.Int("n", 1, "")
	runs := fs.Int("runs", 20, "")
	file := fs.String("file", "", "")
	deadline := fs.Int64("deadline", 0, "")
	fs.Parse(args)
	group := func(trs []*Trace) {
		var wg sync.WaitGroup
		start := make(chan struct{})
		for _, tr := range trs {
			wg.Add(1)
			go func(tr *Trace) {
				defer wg.Done()
				<-start
				e := NewEngine(tr.Plan)
				e.noHook = true
				e.Run(tr)
			}(tr)
		}
		close(start)
		wg.Wait()
	}
	if *file != "" {
		b, err := os.ReadFile(*file)
		if err != nil {
			return 2
		}
		var f c19File
		if json.Unmarshal(b, &f) != nil {
			return 2
		}
		for rep := 0; rep < 3; rep++ {
			group(f.Traces)
		}
		return 0
	}
	groups := 0
	for k := *idx; k < *runs; k += *n {
		if *deadline > 0 && time.Now().Unix() >= *deadline {
			break
		}
		group(c19GroupX(*seed, k, false, true))
		groups++
	}
	fmt.Printf("G %d\n", groups)
	return 0
}

// raceReports extracts data race reports from the stderr of a -race binary.
func raceReports(stderr string) (arche []string, harnessOnly []string) {
	parts := strings.Split(stderr, "==================")
	for _, p := range parts {
		if !strings.Contains(p, "WARNING: DATA RACE") {
			continue
		}
		if strings.Contains(p, "github.com/mlange-42/arche") {
			arche = append(arche, p)
		} else {
			harnessOnly = append(harnessOnly, p)
		}
	}
	return
}

func specialC19(args []string) int {
	fs := flag.NewFlagSet("C19", flag.ExitOnError)
	tier := fs.String("tier", "quick", "")
	seed := fs.Uint64("seed", 1, "")
	evidence := fs.String("evidence", "", "")
	runs := fs.Int("runs", 0, "")
	raceRuns := fs.Int("raceruns", 0, "")
	budget := fs.Int("budget", 0, "")
	raceBin := fs.String("racebin", "/verif/bin/archesim_race", "")
	outdir := fs.String("out", "/verif/replays", "")
	fs.Parse(args)
	thorough := *tier == "thorough"
	if *runs == 0 {
		*runs = 1200
		if thorough {
			*runs = 60000
		}
	}
	if *raceRuns == 0 {
		*raceRuns = 900
		if thorough {
			*raceRuns = 20000
		}
	}
	if *budget == 0 {
		*budget = 45
		if thorough {
			*budget = 600
		}
	}
	start := time.Now()
	deadline := start.Add(time.Duration(*budget) * time.Second).Unix()
	bin := selfBin()
	var mu sync.Mutex
	total := c19Sum{Foreign: map[string]int{}}
	distinct := map[uint64]struct{}{}
	var viols []c19Viol
	var crashes []string
	var wg sync.WaitGroup
	const W = 10
	for i := 0; i < W; i++ {
		wg.Add(1)
		go func(i int) {
			defer wg.Done()
			a := []string{"special", "c19worker", "-seed", fmt.Sprint(*seed), "-idx", fmt.Sprint(i), "-n", fmt.Sprint(W), "-runs", fmt.Sprint(*runs),
				"-deadline", fmt.Sprint(deadline), "-out", *outdir}
			if thorough {
				a = append(a, "-thorough")
			}
			cmd := exec.CommandContext(watchdogCtx(*budget), bin, a...)
			cmd.Env = append(os.Environ(), "GOMAXPROCS=2")
			out, err := cmd.Output()
			mu.Lock()
			defer mu.Unlock()
			if err != nil {
				crashes = append(crashes, fmt.Sprintf("c19worker %d: %v", i, err))
			}
			sc := bufio.NewScanner(strings.NewReader(string(out)))
			sc.Buffer(make([]byte, 1<<20), 1<<28)
			for sc.Scan() {
				line := sc.Text()
				if strings.HasPrefix(line, "V ") {
					var v c19Viol
					if json.Unmarshal([]byte(line[2:]), &v) == nil {
						viols = append(viols, v)
					}
				} else if strings.HasPrefix(line, "S ") {
					var s c19Sum
					if json.Unmarshal([]byte(line[2:]), &s) == nil {
						total.Groups += s.Groups
						total.Worlds += s.Worlds
						total.Steps += s.Steps
						total.Switches += s.Switches
						total.Nested += s.Nested
						total.Shared += s.Shared
						for _, d := range s.Digests {
							distinct[d] = struct{}{}
						}
						for k, v := range s.Foreign {
							total.Foreign[k] += v
						}
					}
				}
			}
		}(i)
	}
	// race half: 6 processes of the -race build
	raceGroups := 0
	var raceArche, raceHarness []string
	raceAvailable := true
	if _, err := os.Stat(*raceBin); err != nil {
		raceAvailable = false
	}
	const RW = 6
	if raceAvailable {
		for i := 0; i < RW; i++ {
			wg.Add(1)
			go func(i int) {
				defer wg.Done()
				cmd := exec.CommandContext(watchdogCtx(*budget), *raceBin, "special", "c19race", "-seed", fmt.Sprint(*seed), "-idx", fmt.Sprint(i), "-n", fmt.Sprint(RW),
					"-runs", fmt.Sprint(*raceRuns), "-deadline", fmt.Sprint(deadline))
				cmd.Env = append(os.Environ(), "GOMAXPROCS=8", "GORACE=halt_on_error=0 exitcode=0")
				var stderr strings.Builder
				cmd.Stderr = &stderr
				out, err := cmd.Output()
				mu.Lock()
				defer mu.Unlock()
				if err != nil {
					crashes = append(crashes, fmt.Sprintf("c19race %d: %v: %s", i, err, tail(stderr.String(), 1500)))
				}
				for _, line := range strings.Split(string(out), "\n") {
					var g int
					if _, err := fmt.Sscanf(line, "G %d", &g); err == nil {
						raceGroups += g
					}
				}
				a, h := raceReports(stderr.String())
				raceArche = append(raceArche, a...)
				raceHarness = append(raceHarness, h...)
			}(i)
		}
	}
	wg.Wait()
	wall := time.Since(start).Seconds()

	exit := 0
	nViol := 0
	for i, v := range viols {
		if i >= 3 {
			break
		}
		// confirm in a fresh process
		c := exec.CommandContext(watchdogCtx(120), bin, "replay", "-q", v.File)
		outb, _ := c.CombinedOutput()
		if strings.Contains(string(outb), "VIOLATION property=C19") {
			fmt.Printf("violation: class=%s group=%d %s\n", v.Class, v.K, v.Msg)
			fmt.Printf("VIOLATION property=C19 replay=%s\n", v.File)
			nViol++
			exit = 1
		} else {
			fmt.Fprintf(os.Stderr, "UNCONFIRMED: %s\n", v.Msg)
			if exit == 0 {
				exit = 2
			}
		}
	}
	if len(raceArche) > 0 {
		// find which group: re-run is not needed for the report; the race report itself is the evidence. Record a replay file
		// that re-runs the race batch.
		os.MkdirAll(*outdir, 0o755)
		path := filepath.Join(*outdir, fmt.Sprintf("C19-race-%d.json", *seed))
		f := map[string]interface{}{"property": "C19", "build": "special-C19-race", "seed": *seed, "raceruns": *raceRuns,
			"violation": map[string]interface{}{"class": "race", "msg": tail(raceArche[0], 3000)}}
		b, _ := json.MarshalIndent(f, "", " ")
		os.WriteFile(path, b, 0o644)
		fmt.Printf("violation: class=race %d data race reports mention arche code; first:\n%s\n", len(raceArche), tail(raceArche[0], 2500))
		fmt.Printf("VIOLATION property=C19 replay=%s\n", path)
		nViol++
		exit = 1
	}
	if len(raceHarness) > 0 && exit == 0 {
		fmt.Fprintf(os.Stderr, "harness data race (not in arche):\n%s\n", tail(raceHarness[0], 3000))
		exit = 2
	}
	for _, c := range crashes {
		fmt.Fprintln(os.Stderr, "CRASH:", c)
		if exit == 0 {
			exit = 2
		}
	}
	if total.Groups == 0 && exit == 0 {
		exit = 2
	}
	if *evidence != "" {
		sample := map[string]interface{}{}
		trs := c19Group(*seed, 0, thorough)
		var plans []interface{}
		for _, tr := range trs {
			plans = append(plans, map[string]interface{}{"seed": tr.Seed, "types": tr.Plan.Types, "steps": len(tr.Steps)})
		}
		sample["group0"] = plans
		ev := map[string]interface{}{
			"property_id": "C19", "tier": *tier, "seed": *seed, "level": "exploration", "wall_s": wall, "violations": nViol,
			"coverage": map[string]interface{}{
				"evaluations":                            total.Groups + raceGroups,
				"distinct_nontrivial":                    len(distinct),
				"rule":                                   "cross-talk half: one evaluation = a group of 2-6 worlds, each trace run alone and all interleaved step by step in one goroutine (sched stream picks the world); per-world observable digests must agree and no oracle may trip in one mode only; distinct = distinct per-world digests. race half: one evaluation = the same kind of group on real goroutines in a -race build",
				"samples":                                []interface{}{sample},
				"crosstalk_groups":                       total.Groups,
				"worlds":                                 total.Worlds,
				"simulated_steps":                        total.Steps,
				"context_switches":                       total.Switches,
				"steps_nested_inside_another_worlds_notification": total.Nested,
				"worlds_sharing_go_types_in_other_order": total.Shared,
				"race_groups":                            raceGroups,
				"race_build_available":                   raceAvailable,
				"race_reports_in_arche":                  len(raceArche),
				"foreign_trips":                          total.Foreign,
				"runs_per_hour":                          float64(total.Groups+raceGroups) / wall * 3600,
				"real_components":                        []string{"ecs", "filter", "listener"},
				"stubbed_components":                     []string{},
				"schedule_control":                       "cross-talk half: every switch decided by the seeded scheduler; race half: goroutine schedule NOT controlled (happens-before race detection does not depend on timing)",
			},
			"assumptions": []string{"the race detector reports a shared write regardless of physical timing as long as both accesses execute"},
		}
		b, _ := json.MarshalIndent(ev, "", " ")
		os.MkdirAll(filepath.Dir(*evidence), 0o755)
		os.WriteFile(*evidence, b, 0o644)
	}
	fmt.Printf("C19 %s: %d groups (%d worlds) interleaved vs solo, %d race groups, %d violations, %.1fs\n", *tier, total.Groups, total.Worlds, raceGroups, nViol, wall)
	return exit
}

func tail(s string, n int) string {
	if len(s) > n {
		return s[len(s)-n:]
	}
	return s
}

func replayC19(tr *Trace, quiet bool) int {
	fmt.Fprintln(os.Stderr, "use ReplayC19File")
	return 2
}

// ReplayC19File replays a recorded C19 group (cross-talk) or race batch.
func ReplayC19File(path string, quiet bool) int {
	b, err := os.ReadFile(path)
	if err != nil {
		return 2
	}
	var probe struct {
		Build    string `json:"build"`
		Seed     uint64 `json:"seed"`
		RaceRuns int    `json:"raceruns"`
	}
	json.Unmarshal(b, &probe)
	if probe.Build == "special-C19-race" {
		cmd := exec.Command(filepath.Join(filepath.Dir(selfBin()), "archesim_race"), "special", "c19race", "-seed", fmt.Sprint(probe.Seed), "-runs", fmt.Sprint(probe.RaceRuns))
		cmd.Env = append(os.Environ(), "GOMAXPROCS=8", "GORACE=halt_on_error=0 exitcode=0")
		var stderr strings.Builder
		cmd.Stderr = &stderr
		cmd.Run()
		a, _ := raceReports(stderr.String())
		if len(a) > 0 {
			if !quiet {
				fmt.Println(tail(a[0], 2500))
			}
			fmt.Printf("VIOLATION property=C19 replay=%s\n", path)
			return 1
		}
		fmt.Println("replay: no data race reported in arche code")
		return 0
	}
	var f c19File
	if json.Unmarshal(b, &f) != nil {
		return 2
	}
	solo, sv := runSolo(f.Traces)
	inter, iv, _ := runInterleaved(f.Traces, Mix(f.Seed, uint64(f.K)))
	for i := range f.Traces {
		bad := (sv[i] == nil) != (iv[i] == nil) || (sv[i] == nil && solo[i] != inter[i]) || (sv[i] != nil && contains(Attribute(f.Traces[i], sv[i]), "C19"))
		if !quiet {
			fmt.Printf("world %d: solo %x (%v) interleaved %x (%v)\n", i, solo[i], sv[i], inter[i], iv[i])
		}
		if bad {
			fmt.Printf("VIOLATION property=C19 replay=%s\n", path)
			return 1
		}
	}
	fmt.Println("replay: no cross-talk")
	return 0
}

// specialC14: the supplementary gc-stress probe (NOT deterministic; see cmd/gcstress and DESIGN.md).
// It runs after the deterministic C14 simulation and adds its result to the same evidence file.
func specialC14(args []string) int {
	fs := flag.NewFlagSet("C14", flag.ExitOnError)
	seed := fs.Uint64("seed", 1, "")
	seconds := fs.Int("seconds", 6, "")
	procs := fs.Int("procs", 4, "")
	evidence := fs.String("evidence", "", "")
	bin := fs.String("bin", "/verif/bin/gcstress", "")
	outdir := fs.String("out", "/verif/replays", "")
	fs.Parse(args)
	type outcome struct {
		Seed   uint64 `json:"seed"`
		Result string `json:"result"`
		Detail string `json:"detail,omitempty"`
	}
	res := make([]outcome, *procs)
	var wg sync.WaitGroup
	for i := 0; i < *procs; i++ {
		wg.Add(1)
		go func(i int) {
			defer wg.Done()
			sd := Mix(*seed, uint64(1000+i))
			res[i] = outcome{Seed: sd}
			gargs := []string{"-seed", fmt.Sprint(sd), "-seconds", fmt.Sprint(*seconds)}
			if i%2 == 1 {
				gargs = append(gargs, "-wide")
			}
			cmd := exec.CommandContext(watchdogCtx(*seconds+60), *bin, gargs...)
			cmd.Env = append(os.Environ(), "GOMAXPROCS=4")
			out, err := cmd.CombinedOutput()
			text := string(out)
			switch {
			case strings.Contains(text, "found pointer to free object") || strings.Contains(text, "marked free object") || strings.Contains(text, "CORRUPTION"):
				res[i].Result = "corruption"
				for _, l := range strings.Split(text, "\n") {
					if strings.Contains(l, "fatal error") || strings.Contains(l, "CORRUPTION") || strings.Contains(l, "marked free object") {
						res[i].Detail = l
						break
					}
				}
			case err != nil:
				res[i].Result = "error"
				res[i].Detail = tail(text, 400)
			default:
				res[i].Result = "clean"
				res[i].Detail = strings.TrimSpace(text)
			}
		}(i)
	}
	wg.Wait()
	exit := 0
	bad := 0
	for _, o := range res {
		if o.Result == "corruption" {
			bad++
		} else if o.Result == "error" && exit == 0 {
			fmt.Fprintln(os.Stderr, "gcstress trouble:", o.Detail)
			exit = 2
		}
	}
	if bad > 0 {
		os.MkdirAll(*outdir, 0o755)
		path := filepath.Join(*outdir, fmt.Sprintf("C14-gcstress-%d.json", *seed))
		f := map[string]interface{}{"property": "C14", "build": "special-C14-gcstress", "seed": *seed, "seconds": *seconds, "procs": *procs, "outcomes": res,
			"violation": map[string]interface{}{"class": "gc-integrity", "msg": "objects referenced only by components were freed or corrupted while the collector ran concurrently with moves"}}
		b, _ := json.MarshalIndent(f, "", " ")
		os.WriteFile(path, b, 0o644)
		fmt.Printf("violation: class=gc-integrity (uncontrolled GC stress) %d of %d processes: %s\n", bad, *procs, res[0].Detail)
		fmt.Printf("VIOLATION property=C14 replay=%s\n", path)
		exit = 1
	}
	if *evidence != "" {
		if b, err := os.ReadFile(*evidence); err == nil {
			var ev map[string]interface{}
			if json.Unmarshal(b, &ev) == nil {
				if cov, ok := ev["coverage"].(map[string]interface{}); ok {
					cov["uncontrolled_gc_stress"] = map[string]interface{}{
						"what":      "supplementary probe outside the deterministic simulation: operation sequence from the seed, collector schedule NOT controlled (GOGC=1, churn goroutines); see DESIGN.md C14",
						"processes": *procs, "seconds_each": *seconds, "outcomes": res, "corruptions": bad,
					}
					if bad > 0 {
						if n, ok := ev["violations"].(float64); ok {
							ev["violations"] = int(n) + 1
						}
					}
					b, _ = json.MarshalIndent(ev, "", " ")
					os.WriteFile(*evidence, b, 0o644)
				}
			}
		}
	}
	fmt.Printf("C14 gc-stress probe: %d processes x %ds, %d with corruption\n", *procs, *seconds, bad)
	return exit
}

func replayC14(path string, quiet bool) int {
	b, err := os.ReadFile(path)
	if err != nil {
		return 2
	}
	var f struct {
		Seed    uint64 `json:"seed"`
		Seconds int    `json:"seconds"`
		Procs   int    `json:"procs"`
	}
	if json.Unmarshal(b, &f) != nil {
		return 2
	}
	// statistical reproduction: up to 3 batches
	for try := 0; try < 3; try++ {
		rc := specialC14([]string{"-seed", fmt.Sprint(f.Seed), "-seconds", fmt.Sprint(f.Seconds), "-procs", fmt.Sprint(f.Procs), "-out", os.TempDir()})
		if rc == 1 {
			fmt.Printf("VIOLATION property=C14 replay=%s\n", path)
			return 1
		}
	}
	fmt.Println("replay: no corruption in 3 batches")
	return 0
}
