package sim

// ---------- C12: restricted listeners and Dispatch as lock-step worlds ----------

func (e *Engine) setupShadows() *Violation {
	p := e.P
	if p.Profile != "C12" {
		return nil
	}
	r := NewSys("restricted", p)
	r.InstallRestricted(Sub{S: p.ListenerS, C: p.ListenerC})
	r.AddSlot(e.Slots[0])
	e.Shadows = append(e.Shadows, &Shadow{S: r, Kind: "restricted"})
	d := NewSys("dispatch", p)
	d.InstallDispatch(p.Dispatch)
	d.AddSlot(e.Slots[0])
	e.Shadows = append(e.Shadows, &Shadow{S: d, Kind: "dispatch"})
	e.dispatchAdded = make([]bool, len(p.Dispatch))
	for i, s := range p.Dispatch {
		e.dispatchAdded[i] = s.LateAt == 0
	}
	return nil
}

// ruleSelects is the documented subscription rule, evaluated over plain sets.
func ruleSelects(ev *MEv, S uint8, C []int) bool {
	trig := S & ev.Types
	if trig == 0 {
		return false
	}
	if len(C) == 0 {
		return true
	}
	cs := setOf(C)
	if trig&(evRelChg|evTargChg) != 0 {
		if (ev.OldRel >= 0 && cs&(1<<uint(ev.OldRel)) != 0) || (ev.NewRel >= 0 && cs&(1<<uint(ev.NewRel)) != 0) {
			return true
		}
	}
	if trig&(evCreated|evCompAdded) != 0 && ev.Added&cs != 0 {
		return true
	}
	if trig&(evRemoved|evCompRem) != 0 && ev.Removed&cs != 0 {
		return true
	}
	return false
}

func (e *Engine) checkSubscriptions(sh *Shadow) *Violation {
	s := sh.S
	if got := s.W.IsLocked(); got != e.locked() {
		v := e.sv(sh, nil, "world with a restricted listener: IsLocked()=%v but %d queries are open", got, len(e.Open))
		v.Class = "lock-ledger"
		return v
	}
	full := e.lastGot
	cmp := func(name string, sub Sub, got []Ev) *Violation {
		var exp []MEv
		for i := range full {
			if ruleSelects(&full[i].MEv, sub.S, sub.C) {
				exp = append(exp, full[i].MEv)
			}
		}
		if len(exp) != len(got) {
			gl := make([]MEv, len(got))
			for i := range got {
				gl[i] = got[i].MEv
			}
			return e.sv(sh, nil, "%s (S=%06b C=%v) received %d events, the documented rule selects %d of the full stream; got %s expected %s",
				name, sub.S, sub.C, len(got), len(exp), fmtEvs(gl), fmtEvs(exp))
		}
		for i := range got {
			if got[i].Types&evRemoved != 0 && !got[i].Locked {
				v := e.sv(sh, nil, "%s (S=%06b C=%v): removal event %s delivered with the world unlocked", name, sub.S, sub.C, fmtEv(&got[i].MEv))
				v.Class = "lock-not-enforced"
				return v
			}
		}
		for i := range exp {
			if !evEqual(&exp[i], &got[i].MEv) || got[i].AddedIDs != got[i].Added || got[i].RemovedIDs != got[i].Removed {
				return e.sv(sh, nil, "%s (S=%06b C=%v): event %d is %s, the full stream has %s there", name, sub.S, sub.C, i, fmtEv(&got[i].MEv), fmtEv(&exp[i]))
			}
		}
		e.St.Probes["subscription-events-compared"] += len(exp)
		if len(exp) < len(full) {
			e.St.Probes["subscription-filtered-out"] += len(full) - len(exp)
		}
		return nil
	}
	switch sh.Kind {
	case "restricted":
		got := s.Subs[0]
		s.Subs[0] = nil
		return cmp("restricted listener", Sub{S: e.P.ListenerS, C: e.P.ListenerC}, got)
	case "dispatch":
		for i, sub := range e.P.Dispatch {
			got := s.Subs[i]
			s.Subs[i] = nil
			if !e.dispatchAdded[i] {
				if len(got) > 0 {
					return e.sv(sh, nil, "Dispatch member %d received events before it was added", i)
				}
				continue
			}
			if v := cmp("Dispatch member "+itoa(i), sub, got); v != nil {
				return v
			}
		}
	}
	return nil
}

func (e *Engine) opAddSub(c *cursor) *Violation {
	for i, added := range e.dispatchAdded {
		if !added {
			for _, sh := range e.Shadows {
				if sh.Kind == "dispatch" {
					sh.S.AddMember(i, e.P.Dispatch[i])
				}
			}
			e.dispatchAdded[i] = true
			e.St.Faults["late-registration"]++
			e.St.Probes["dispatch-member-added-late"]++
			if e.keepConcrete {
				e.Concrete = append(e.Concrete, "addsub "+itoa(i))
			}
			return nil
		}
	}
	e.St.Skipped++
	return nil
}

// opLockEnum: the C09 enumeration step. Unlocked: take a lock through a drawn source (plain / registered / relation
// query, or the query returned by a batch call). Locked: a burst of structural entry points, each of which must be
// refused and leave everything unchanged (issue() checks both).
func (e *Engine) opLockEnum(c *cursor) *Violation {
	seed := uint64(c.n(1<<30))<<20 ^ uint64(c.n(1<<30))
	sm := SplitMix{s: seed}
	sub := func() *cursor {
		a := make([]uint32, 14)
		for i := range a {
			a[i] = uint32(sm.Next())
		}
		return &cursor{a: a}
	}
	if !e.locked() {
		e.forceQ = true
		defer func() { e.forceQ = false }()
		switch sm.Next() % 4 {
		case 0, 1:
			return e.opQOpen(sub())
		case 2:
			return e.opNewBatch(sub())
		default:
			return e.opBatch(sub())
		}
	}
	src := e.lockSource()
	n := 4 + int(sm.Next()%6)
	for i := 0; i < n; i++ {
		var v *Violation
		before := e.St.Faults["locked-call"]
		k := sm.Next() % 9
		switch k {
		case 0:
			v = e.opNew(sub())
		case 1:
			v = e.opNewBatch(sub())
		case 2:
			v = e.opRemove(sub())
		case 3:
			v = e.opExchange(sub())
		case 4:
			v = e.opSetRel(sub())
		case 5:
			v = e.opBatch(sub())
		case 6:
			v = e.opReset(sub())
		case 7:
			v = e.opRegType(sub())
		default:
			v = e.loadRefused()
		}
		if v != nil {
			return v
		}
		if e.St.Faults["locked-call"] > before {
			e.St.Probes["refused-under:"+src]++
		}
	}
	e.St.Probes["lockenum-burst"]++
	return nil
}

// lockSource names the way the (first) lock is currently held.
func (e *Engine) lockSource() string {
	if len(e.Open) == 0 {
		return "none"
	}
	oq := e.Open[0]
	s := "plain"
	if oq.Batch {
		s = "batch-result"
	} else if oq.Cached {
		s = "registered"
	} else if e.Slots[oq.Slot].Kind == "relation" {
		s = "relation"
	}
	if len(e.Open) > 1 {
		s += "+nested"
	}
	return s
}

// loadRefused: LoadEntities on a locked world must be refused.
func (e *Engine) loadRefused() *Violation {
	if !e.locked() {
		return nil
	}
	d := e.S.W.DumpEntities()
	refused := false
	func() {
		defer func() {
			if r := recover(); r != nil {
				refused = true
			}
		}()
		e.S.W.LoadEntities(&d)
	}()
	e.St.Faults["locked-call"]++
	e.St.Ops["load"]++
	if !refused {
		return e.viol("lock-not-enforced", &COp{Kind: "load", Rel: -1}, "LoadEntities succeeded on a locked world")
	}
	return e.checkAll(e.S, "state-after-locked-call")
}
