#!/usr/bin/env python3
# Generates c18_generated.go: thin typed wrappers around generic.MapN / FilterN / QueryN for arities 1-12 and
# three type permutations each, behind the untyped mapDriver / filterDriver interfaces of c18.go.
# Run from /verif/sim:  python3 gen_c18.py > c18_generated.go ; gofmt -w c18_generated.go

PLAIN = ["G%d" % i for i in range(12)]

def types_for(n, perm):
    if perm == 0:
        return PLAIN[:n], None
    if perm == 1:
        return list(reversed(PLAIN))[:n], None
    # perm 2: relation type GRelA in the middle, the others in a fixed rotation
    pos = (n - 1) // 2
    rot = ["G3", "G8", "G1", "G6", "G11", "G4", "G9", "G2", "G7", "G0", "G5", "G10"]
    out = []
    k = 0
    for i in range(n):
        if i == pos:
            out.append("GRelA")
        else:
            out.append(rot[k])
            k += 1
    return out, "GRelA"

letters = "ABCDEFGHIJKL"

def gen(n, perm):
    ts, rel = types_for(n, perm)
    name = "drv%d_%d" % (n, perm)
    tl = ", ".join(ts)
    vars_ = ["p%d" % i for i in range(n)]
    o = []
    o.append("type %s struct {\n\tm generic.Map%d[%s]\n\tw *ecs.World\n}\n" % (name, n, tl))
    o.append("func (d *%s) N() int { return %d }" % (name, n))
    o.append("func (d *%s) Types() []reflect.Type { return []reflect.Type{%s} }" % (name, ", ".join("reflect.TypeOf(%s{})" % t for t in ts)))
    if rel:
        o.append("func (d *%s) RelType() reflect.Type { return reflect.TypeOf(%s{}) }" % (name, rel))
        o.append("func (d *%s) Init(w *ecs.World) { d.w = w; d.m = generic.NewMap%d[%s](w, generic.T[%s]()) }" % (name, n, tl, rel))
    else:
        o.append("func (d *%s) RelType() reflect.Type { return nil }" % name)
        o.append("func (d *%s) Init(w *ecs.World) { d.w = w; d.m = generic.NewMap%d[%s](w) }" % (name, n, tl))
    ptrs = ", ".join("unsafe.Pointer(%s)" % v for v in vars_)
    o.append("func (d *%s) Get(e ecs.Entity) []unsafe.Pointer { %s := d.m.Get(e); return []unsafe.Pointer{%s} }" % (name, ", ".join(vars_), ptrs))
    o.append("func (d *%s) GetUnchecked(e ecs.Entity) []unsafe.Pointer { %s := d.m.GetUnchecked(e); return []unsafe.Pointer{%s} }" % (name, ", ".join(vars_), ptrs))
    o.append("func (d *%s) New(t []ecs.Entity) ecs.Entity { return d.m.New(t...) }" % name)
    o.append("func (d *%s) NewBatch(count int, t []ecs.Entity) { d.m.NewBatch(count, t...) }" % name)
    collect = "func(q *generic.Query%d[%s]) qres {\n\t\tr := qres{count: q.Count(), hasRel: %s}\n\t\tfor q.Next() {\n\t\t\tr.ents = append(r.ents, q.Entity())\n\t\t\t%s := q.Get()\n\t\t\tr.ptrs = append(r.ptrs, []unsafe.Pointer{%s})\n\t\t\tif r.hasRel {\n\t\t\t\tr.rel = append(r.rel, q.Relation())\n\t\t\t}\n\t\t}\n\t\treturn r\n\t}" % (
        n, tl, "true" if rel else "false", ", ".join(vars_), ptrs)
    o.append("func (d *%s) collect() func(q *generic.Query%d[%s]) qres { return %s }" % (name, n, tl, collect))
    o.append("func (d *%s) NewBatchQ(count int, t []ecs.Entity) qres { q := d.m.NewBatchQ(count, t...); return d.collect()(&q) }" % name)
    args = ", ".join("&%s{V: vals[%d]}" % (t, i) for i, t in enumerate(ts))
    o.append("func (d *%s) NewWith(vals []uint64, t []ecs.Entity) ecs.Entity { return d.m.NewWith(%s, t...) }" % (name, args))
    o.append("func (d *%s) Add(e ecs.Entity, t []ecs.Entity) { d.m.Add(e, t...) }" % name)
    o.append("func (d *%s) AddBatch(f ecs.Filter, t []ecs.Entity) int { return d.m.AddBatch(f, t...) }" % name)
    o.append("func (d *%s) AddBatchQ(f ecs.Filter, t []ecs.Entity) qres { q := d.m.AddBatchQ(f, t...); return d.collect()(&q) }" % name)
    o.append("func (d *%s) Assign(e ecs.Entity, vals []uint64) { d.m.Assign(e, %s) }" % (name, args))
    o.append("func (d *%s) Remove(e ecs.Entity, t []ecs.Entity) { d.m.Remove(e, t...) }" % name)
    o.append("func (d *%s) RemoveBatch(f ecs.Filter, t []ecs.Entity) int { return d.m.RemoveBatch(f, t...) }" % name)
    o.append("func (d *%s) RemoveBatchQ(f ecs.Filter, t []ecs.Entity) qres { q := d.m.RemoveBatchQ(f, t...); return collect0(&q, %s) }" % (name, "true" if rel else "false"))
    o.append("func (d *%s) RemoveEntities(exclusive bool) int { return d.m.RemoveEntities(exclusive) }" % name)
    fname = "flt%d_%d" % (n, perm)
    o.append("func (d *%s) NewFilter() filterDriver { return &%s{f: generic.NewFilter%d[%s](), d: d} }" % (name, fname, n, tl))
    o.append("type %s struct {\n\tf *generic.Filter%d[%s]\n\td *%s\n}\n" % (fname, n, tl, name))
    o.append("func (f *%s) With(c ...generic.Comp) { f.f.With(c...) }" % fname)
    o.append("func (f *%s) Without(c ...generic.Comp) { f.f.Without(c...) }" % fname)
    o.append("func (f *%s) Optional(c ...generic.Comp) { f.f.Optional(c...) }" % fname)
    o.append("func (f *%s) Exclusive() { f.f.Exclusive() }" % fname)
    o.append("func (f *%s) WithRelation(c generic.Comp, t []ecs.Entity) { f.f.WithRelation(c, t...) }" % fname)
    o.append("func (f *%s) Register(w *ecs.World) { f.f.Register(w) }" % fname)
    o.append("func (f *%s) Unregister(w *ecs.World) { f.f.Unregister(w) }" % fname)
    o.append("func (f *%s) Filter(w *ecs.World, t []ecs.Entity) ecs.Filter { return f.f.Filter(w, t...) }" % fname)
    o.append("func (f *%s) Query(w *ecs.World, t []ecs.Entity, withRel bool) qres {\n\tq := f.f.Query(w, t...)\n\tr := qres{count: q.Count(), hasRel: withRel}\n\tfor q.Next() {\n\t\tr.ents = append(r.ents, q.Entity())\n\t\t%s := q.Get()\n\t\tr.ptrs = append(r.ptrs, []unsafe.Pointer{%s})\n\t\tif withRel {\n\t\t\tr.rel = append(r.rel, q.Relation())\n\t\t}\n\t}\n\treturn r\n}" % (
        fname, ", ".join(vars_), ptrs))
    o.append("func (f *%s) QuerySplit(w *ecs.World, t []ecs.Entity, withRel bool, k int, between func()) qres {\n\tq := f.f.Query(w, t...)\n\tr := qres{count: q.Count(), hasRel: withRel}\n\tfor q.Next() {\n\t\tr.ents = append(r.ents, q.Entity())\n\t\t%s := q.Get()\n\t\tr.ptrs = append(r.ptrs, []unsafe.Pointer{%s})\n\t\tif withRel {\n\t\t\tr.rel = append(r.rel, q.Relation())\n\t\t}\n\t\tif len(r.ents) == k {\n\t\t\tbetween()\n\t\t}\n\t}\n\tif len(r.ents) < k {\n\t\tbetween() // fewer entities than k: the builder call comes after the query has ended\n\t}\n\treturn r\n}" % (
        fname, ", ".join(vars_), ptrs))
    return "\n".join(o) + "\n"

print("// Code generated by gen_c18.py. DO NOT EDIT.\n")
print("package sim\n")
print('import (\n\t"reflect"\n\t"unsafe"\n\n\t"github.com/mlange-42/arche/ecs"\n\t"github.com/mlange-42/arche/generic"\n)\n')
for n in range(1, 13):
    for perm in range(3):
        print(gen(n, perm))
print("func newMapDriver(n, perm int) mapDriver {\n\tswitch n*3 + perm {")
for n in range(1, 13):
    for perm in range(3):
        print("\tcase %d:\n\t\treturn &drv%d_%d{}" % (n * 3 + perm, n, perm))
print("\t}\n\tpanic(\"no such driver\")\n}")
