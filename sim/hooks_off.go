//go:build !verif

package sim

import "github.com/mlange-42/arche/ecs"

// Built without the verif tag the simulator runs the library exactly as users build it: no hidden-state
// digest, no invariant probe, no mid-operation hook points (GC faults then land on operation boundaries only).
const HooksEnabled = false

func worldShape(w *ecs.World) uint64     { return 0 }
func worldInvariants(w *ecs.World) error { return nil }
func setHookPoint(f func(site int))      {}
func relTablesPerNode(w *ecs.World) int  { return 0 }
