package sim

import (
	"fmt"
	"reflect"

	"github.com/mlange-42/arche/ecs"
)

var batchVariants = []string{"Batch.Add", "Batch.Remove", "Batch.Exchange", "Relations.ExchangeBatch",
	"Batch.SetRelation", "Relations.SetBatch", "Batch.RemoveEntities"}

func (e *Engine) opBatch(c *cursor) *Violation {
	slot, cached := e.pickSlot(c)
	spec := e.Slots[slot]
	op := &COp{Kind: "batch", Slot: slot, Cached: cached, Rel: -1}
	op.Variant = batchVariants[c.n(len(batchVariants))]
	if e.forceQ && op.Variant == "Batch.RemoveEntities" {
		op.Variant = "Batch.Exchange"
	}
	op.Q = (c.n(3) == 0 || e.forceQ) && op.Variant != "Batch.RemoveEntities"
	if op.Q && len(e.Open) >= e.P.MaxOpen && !e.locked() {
		op.Q = false
	}
	if spec.Ambiguous(e.M) {
		e.St.Probes["batch-skipped-ambiguous-filter"]++
		e.St.Skipped++
		return nil
	}
	matched := spec.Matched(e.M)
	// component arguments legal for every matching entity
	all := uint32(0xFFFFFFFF)
	any := uint32(0)
	anyRel := false
	for _, me := range matched {
		all &= me.Cs
		any |= me.Cs
		if e.M.relOf(me.Cs) >= 0 {
			anyRel = true
		}
	}
	if len(matched) == 0 {
		all = 0
	}
	var canAdd, canRem []int
	for _, t := range e.regTypes() {
		b := uint32(1) << uint(t)
		if any&b == 0 {
			canAdd = append(canAdd, t)
		}
		if all&b != 0 {
			canRem = append(canRem, t)
		}
	}
	add := subset(c, canAdd, 2)
	rem := subset(c, canRem, 2)
	switch op.Variant {
	case "Batch.Add":
		rem = nil
	case "Batch.Remove":
		add = nil
	}
	// relation constraint: adding a relation needs every match to be without one afterwards
	relRemoved := setOf(rem)&e.M.RelMask != 0
	if anyRel && !relRemoved {
		var a2 []int
		for _, t := range add {
			if e.M.RelMask&(1<<uint(t)) == 0 {
				a2 = append(a2, t)
			}
		}
		add = a2
	} else {
		add = e.limitRelations(0, add)
		if anyRel && relRemoved {
			// only legal if every related match carries exactly the removed relation: rem ⊆ all guarantees that
		}
	}
	if e.P.NoTargetDeath && !e.P.TargetsOnly && op.Variant == "Batch.RemoveEntities" {
		for _, me := range matched {
			if e.M.Targets[me.H] {
				e.St.Skipped++
				return nil
			}
		}
	}
	if e.P.TargetsOnly {
		if op.Variant == "Batch.RemoveEntities" {
			for _, me := range matched {
				if e.M.Targets[me.H] {
					e.St.Skipped++
					return nil
				}
			}
		}
		if op.Variant != "Relations.ExchangeBatch" {
			var a2 []int
			for _, t := range add {
				if e.M.RelMask&(1<<uint(t)) == 0 {
					a2 = append(a2, t)
				}
			}
			add = a2
		}
	}
	why := ""
	badRel := ""
	noEffect := false
	ill := e.illegalIntent(c)
	switch op.Variant {
	case "Batch.Add":
		op.Add = add
	case "Batch.Remove":
		op.Rem = rem
	case "Batch.Exchange":
		op.Add, op.Rem = add, rem
	case "Relations.ExchangeBatch":
		op.Add, op.Rem = add, rem
		op.HasTgt = true
		// relation present in every result
		resAll := (all &^ setOf(rem)) | setOf(add)
		r := e.M.relOf(resAll & e.M.RelMask)
		if r < 0 || len(matched) == 0 {
			op.Variant, op.HasTgt = "Batch.Exchange", false
		} else {
			op.Rel = r
			op.Target = e.pickTarget(c, nil, ill)
			if ill && c.n(3) == 0 {
				// a relation argument that no resulting entity carries / a plain type that every result carries:
				// refused at the first table, before anything has moved
				var any uint32
				for _, me := range matched {
					any |= (me.Cs &^ setOf(rem)) | setOf(add)
				}
				var missing, plainIn []int
				for _, t := range e.regTypes() {
					if any&(1<<uint(t)) == 0 {
						missing = append(missing, t)
					} else if resAll&(1<<uint(t)) != 0 && e.M.RelMask&(1<<uint(t)) == 0 {
						plainIn = append(plainIn, t)
					}
				}
				k := c.n(1 << 16)
				if len(missing) > 0 && (k%2 == 0 || len(plainIn) == 0) {
					op.Rel, badRel = missing[(k/2)%len(missing)], "relation-missing"
				} else if len(plainIn) > 0 {
					op.Rel, badRel = plainIn[(k/2)%len(plainIn)], "not-a-relation"
				}
			}
		}
	case "Batch.SetRelation", "Relations.SetBatch":
		r := e.M.relOf(all & e.M.RelMask)
		if len(matched) == 0 {
			rels, _ := e.relTypes()
			if len(rels) > 0 {
				r = rels[c.n(len(rels))]
			}
		}
		if r < 0 {
			e.St.Skipped++
			return nil
		}
		op.Rel = r
		op.HasTgt = true
		op.Target = e.pickTarget(c, nil, ill)
	}
	if (op.Variant == "Batch.Add" || op.Variant == "Batch.Remove" || op.Variant == "Batch.Exchange" || op.Variant == "Relations.ExchangeBatch") &&
		len(op.Add) == 0 && len(op.Rem) == 0 {
		if ill && op.Variant == "Relations.ExchangeBatch" {
			why = "exchange-no-effect-with-relation"
		} else if op.Variant != "Relations.ExchangeBatch" && !op.Q && c.n(3) == 0 {
			// a batch call without any component: legal, changes nothing, announces nothing (the number it returns
			// is not pinned down by the documentation)
			noEffect = true
			e.St.Probes["batch-without-components"]++
		} else {
			e.St.Skipped++
			return nil
		}
	}
	if badRel != "" && why == "" {
		why = badRel
	}
	if ill && why == "" && len(matched) > 0 && c.n(4) == 0 &&
		(op.Variant == "Batch.Add" || op.Variant == "Batch.Remove" || op.Variant == "Batch.Exchange") {
		// an ID listed twice (sometimes in a list longer than a machine word has bits): refused at the first table
		long := c.n(3) == 0
		dupl := func(l []int) []int {
			l = append(append([]int{}, l...), l[c.n(len(l))])
			for n := 33 + c.n(40); long && len(l) < n; {
				l = append(l, l[c.n(len(l))])
			}
			return l
		}
		if len(op.Rem) > 0 && (len(op.Add) == 0 || c.n(2) == 0) {
			op.Rem, why = dupl(op.Rem), "dup-rem"
		} else if len(op.Add) > 0 {
			op.Add, why = dupl(op.Add), "dup-add"
		}
	}
	if op.HasTgt && !e.M.TargetOK(op.Target) {
		if len(matched) == 0 && op.Variant == "Relations.ExchangeBatch" {
			op.Target = ecs.Entity{} // nothing would be assigned: outcome is not pinned down by the documentation
		} else {
			why = "dead-target"
		}
	}
	op.Illegal = why

	// order in which a loop of single removals has to run in the entity-only twin
	var order []ecs.Entity
	e.rmOrder = nil
	if op.Variant == "Batch.RemoveEntities" && why == "" && !e.locked() && (e.hasShadow("load") || e.hasShadow("fresh")) {
		q := e.S.W.Query(e.S.filterFor(op))
		order = collect(&q)
		e.rmOrder = order
	}

	if e.P.BatchAsSingles && why == "" && !e.locked() && !noEffect {
		return e.batchAsSingles(op, matched)
	}
	res, ok, v := e.issue(op, why)
	if v != nil {
		if v.Class == "unexpected-panic" {
			if cached {
				v.Facts = append(v.Facts, "through-registered-filter")
			}
			if op.Variant == "Batch.RemoveEntities" {
				for _, me := range matched {
					if e.M.Targets[me.H] {
						v.Class = "target-death"
						break
					}
				}
			}
		}
		return v
	}
	if !ok {
		return nil
	}
	cl := "batch-diff"
	if cached {
		e.St.Probes["batch-through-registered"]++
	}
	if len(matched) > 0 {
		e.St.Probes["batch-nonempty"]++
	}
	srcTables := map[uint64]bool{}
	for _, me := range matched {
		srcTables[uint64(me.Cs)<<32|uint64(me.Target.ID())] = true
	}
	if len(srcTables) > 1 {
		e.St.Probes["batch-multi-source"]++
	}
	if noEffect {
		matched = nil
	}
	var countViol *Violation
	if !op.Q && res.Count != len(matched) && !noEffect {
		countViol = e.viol(cl, op, "%s returned %d, %d entities match %s", op.Variant, res.Count, len(matched), spec)
	}
	before := len(e.expEvents)
	affected := map[ecs.Entity]bool{}
	switch op.Variant {
	case "Batch.RemoveEntities":
		parents := false
		for _, me := range matched {
			if e.M.Targets[me.H] {
				parents = true
			}
		}
		if parents && len(matched) > 1 {
			e.St.Probes["parent-and-others-in-one-batch"]++
		}
		for _, me := range matched {
			e.commitRemove(me)
		}
		for _, sh := range e.Shadows {
			if sh.Kind == "load" {
				for _, h := range order {
					r := sh.S.Apply(&COp{Kind: "rm", Ent: h, Rel: -1})
					if r.Panicked {
						return &Violation{Class: "dump-diff", Step: e.step, World: "load", Op: op, Msg: "removal of " + entStr(h) + " refused in the loaded world: " + r.Msg}
					}
				}
			}
		}
	case "Batch.SetRelation", "Relations.SetBatch":
		for _, me := range matched {
			if me.Target != op.Target {
				affected[me.H] = true
			}
			e.commitSetRel(op, me)
		}
	default:
		for _, me := range matched {
			affected[me.H] = true
			e.commitExchange(op, me)
		}
	}
	if countViol != nil {
		// the batch touched another number of entities than match the filter: see what that did to the entities
		if v2 := e.checkAll(e.S, ""); v2 != nil {
			v2.Also = append(v2.Also, "batch-diff")
			v2.Op = op
			v2.Msg = countViol.Msg + "; " + v2.Msg
			return v2
		}
		return countViol
	}
	if op.Q {
		oq := &OpenQ{Batch: true, ExpSet: affected, Pos: -1, At: map[int]ecs.Entity{}, NewTypes: setOf(op.Add), Rel: -1, Slot: slot, Cached: cached}
		if e.listening() {
			oq.Deferred = append(oq.Deferred, e.expEvents[before:]...)
			oq.HasDef = true
			e.expEvents = e.expEvents[:before]
			e.pendingDef++
		}
		e.pushOpen(oq, res)
		if cnt := res.Query.Count(); cnt != len(affected) {
			return e.viol(cl, op, "%s: returned query counts %d, %d entities were affected", op.Variant, cnt, len(affected))
		}
	}
	return nil
}

func entStr(h ecs.Entity) string {
	return "(" + itoa(int(h.ID())) + "," + itoa(int(h.Generation())) + ")"
}

func itoa(i int) string {
	if i == 0 {
		return "0"
	}
	neg := i < 0
	if neg {
		i = -i
	}
	var b []byte
	for i > 0 {
		b = append([]byte{byte('0' + i%10)}, b...)
		i /= 10
	}
	if neg {
		return "-" + string(b)
	}
	return string(b)
}

func (e *Engine) hasShadow(kind string) bool {
	for _, sh := range e.Shadows {
		if sh.Kind == kind {
			return true
		}
	}
	return false
}

// ---------- filters ----------

func (e *Engine) maxSlots() int {
	if e.P.Wide == "filters" {
		return 150
	}
	return 10
}

func (e *Engine) opFNew(c *cursor) *Violation {
	if len(e.Slots) >= e.maxSlots() {
		e.St.Skipped++
		return nil
	}
	reg := e.regTypes()
	spec := genFilter(c, reg, 2, e.P.RelFilterPct, func() ecs.Entity {
		// relation-filter target: alive, zero, or a dead one
		k := c.n(100)
		if k < 15 {
			if h, ok := e.pickDead(c, false); ok {
				return h
			}
		}
		return e.pickTarget(c, nil, false)
	})
	e.addSlot(spec)
	if e.keepConcrete {
		e.Concrete = append(e.Concrete, "fnew "+spec.String())
	}
	e.St.Ops["fnew"]++
	return nil
}

func (e *Engine) opFReg(c *cursor) *Violation {
	var cands, regd []int
	for i, r := range e.Reg {
		if !r {
			cands = append(cands, i)
		} else {
			regd = append(regd, i)
		}
	}
	k := c.n(1 << 20)
	if e.illegalIntent(c) && len(regd) > 0 {
		op := &COp{Kind: "freg", Variant: "RegisterCached", Slot: regd[k%len(regd)], Rel: -1, Illegal: "double-register"}
		_, _, v := e.issue(op, "double-register")
		return v
	}
	if len(cands) == 0 {
		e.St.Skipped++
		return nil
	}
	slot := cands[k%len(cands)]
	if k%3 != 0 {
		for i := range cands {
			if s := cands[(k+i)%len(cands)]; e.Slots[s].Kind == "relation" {
				slot = s
				break
			}
		}
	}
	op := &COp{Kind: "freg", Variant: "Register", Slot: slot, Rel: -1}
	if st := c.n(320); st < 40 {
		op.Variant, op.Count = "RegisterStorm", 1+st*8
		if st == 0 {
			op.Count = 1<<16 + 2 // more registrations in one world's life than 16 bits count
		}
		e.St.Probes["register-storm"]++
	}
	_, ok, v := e.issue(op, "")
	if v != nil {
		if v.Class == "unexpected-panic" {
			v.Class = "cache-diff"
		}
		return v
	}
	if ok {
		e.Reg[op.Slot] = true
		e.St.Faults["late-registration"]++
		if len(e.M.Alive) > 0 {
			e.St.Probes["registered-after-entities"]++
		}
		return e.checkSlot(e.S, op.Slot)
	}
	return nil
}

func (e *Engine) opFUnreg(c *cursor) *Violation {
	var regd []int
	for i, r := range e.Reg {
		if r {
			regd = append(regd, i)
		}
	}
	k := c.n(1 << 20)
	if e.illegalIntent(c) && e.hadUnreg {
		op := &COp{Kind: "funreg", Variant: "UnregisterTwice", Slot: e.lastUnregSlot, Rel: -1, Illegal: "double-unregister"}
		_, _, v := e.issue(op, "double-unregister")
		return v
	}
	if len(regd) == 0 {
		e.St.Skipped++
		return nil
	}
	op := &COp{Kind: "funreg", Variant: "Unregister", Slot: regd[k%len(regd)], Rel: -1}
	res, ok, v := e.issue(op, "")
	if v != nil {
		if v.Class == "unexpected-panic" {
			v.Class = "cache-diff"
		}
		return v
	}
	if ok {
		e.Reg[op.Slot] = false
		e.hadUnreg = true
		e.lastUnregSlot = op.Slot
		same := false
		func() {
			defer func() { recover() }()
			same = res.Any == e.S.Filters[op.Slot]
		}()
		if !same {
			return e.viol("cache-diff", op, "Unregister did not return the original filter")
		}
		e.St.Probes["unregistered"]++
	}
	return nil
}

// ---------- late type registration ----------

func (e *Engine) opRegType(c *cursor) *Violation {
	var pending []int
	for k, t := range e.P.Types {
		if t.Late && e.M.Reg&(1<<uint(k)) == 0 {
			pending = append(pending, k)
		}
	}
	if len(pending) == 0 {
		return e.fillToLimit(c)
	}
	k := pending[0] // registration order is part of the plan (IDs are assigned densely)
	if e.locked() {
		// the refused attempt may be for any pending type; what is registered once unlocked is again the next in order
		k = pending[c.n(len(pending))]
		if e.P.Types[k].IsRelation() {
			e.St.Probes["relation-type-registration-refused-under-lock"]++
		}
	}
	nBefore := len(ecs.ComponentIDs(e.S.W))
	msg, panicked := e.S.RegisterType(k)
	e.St.Ops["regtype"]++
	if e.keepConcrete {
		e.Concrete = append(e.Concrete, "regtype "+itoa(k))
	}
	if e.locked() {
		e.St.Faults["locked-call"]++
		if !panicked {
			return e.viol("lock-not-enforced", nil, "a new component type was registered in a locked world")
		}
		// the ledger must be unchanged (a filler may not have slipped in either)
		if n := len(ecs.ComponentIDs(e.S.W)); n != nBefore {
			v := e.viol("state-after-locked-call", nil, "registration refused under lock, but ComponentIDs grew from %d to %d", nBefore, n)
			v.Also = append(v.Also, "registry")
			return v
		}
		return override(e.checkAll(e.S, ""), "state-after-locked-call")
	}
	if panicked {
		return e.viol("registry", nil, "registering live type %d panicked: %s", k, msg)
	}
	e.M.Reg |= 1 << uint(k)
	e.St.Faults["late-registration"]++
	for _, sh := range e.Shadows {
		if sh.Kind == "fresh" {
			if m2, p2 := sh.S.RegisterType(k); p2 {
				return &Violation{Class: "reset-diff", Step: e.step, World: sh.S.Name, Msg: "type registration panicked in the fresh twin: " + m2}
			}
		}
	}
	id := idOf(e.S.IDs[k])
	if id >= 240 {
		e.St.Probes["type-on-id>=240"]++
	}
	if id%16 == 0 && id > 0 {
		e.St.Probes["type-on-layout-chunk-border"]++
	}
	return nil
}

// fillToLimit (C16): once every planned type is registered, extra filler types are registered towards the limit of
// MaskTotalBits; the registration beyond the limit must panic and leave the registry unchanged.
func (e *Engine) fillToLimit(c *cursor) *Violation {
	if !e.P.FillToLimit || e.locked() {
		e.St.Skipped++
		return nil
	}
	s := e.S
	n := len(ecs.ComponentIDs(s.W))
	batch := 1 + c.n(60)
	for i := 0; i < batch && n < ecs.MaskTotalBits; i++ {
		var msg string
		func() {
			defer func() {
				if r := recover(); r != nil {
					msg = fmt.Sprint(r)
				}
			}()
			registerFiller(s.W, s.nextFill)
		}()
		if msg != "" {
			return e.viol("registry", nil, "registering type number %d (limit %d) panicked: %s", n+1, ecs.MaskTotalBits, msg)
		}
		s.regOrder = append(s.regOrder, -1-s.nextFill)
		s.nextFill++
		n++
		for _, sh := range e.Shadows {
			if sh.Kind == "fresh" {
				registerFiller(sh.S.W, sh.S.nextFill)
				sh.S.regOrder = append(sh.S.regOrder, -1-sh.S.nextFill)
				sh.S.nextFill++
			}
		}
	}
	e.St.Ops["regtype"]++
	if n < ecs.MaskTotalBits {
		return nil
	}
	// the registry is full: one more must be refused
	e.St.Faults["type-limit"]++
	refused := false
	func() {
		defer func() {
			if r := recover(); r != nil {
				refused = true
			}
		}()
		registerFiller(s.W, 100000+s.nextFill)
	}()
	if !refused {
		return e.viol("type-limit", nil, "component type number %d was registered (limit %d)", ecs.MaskTotalBits+1, ecs.MaskTotalBits)
	}
	if got := len(ecs.ComponentIDs(s.W)); got != ecs.MaskTotalBits {
		return e.viol("type-limit", nil, "after the refused registration ComponentIDs has %d entries", got)
	}
	if v := e.checkAll(s, ""); v != nil {
		v.Also = append(v.Also, "type-limit")
		return v
	}
	// resource registry: same limit, independent of the component registry
	if c.n(3) == 0 {
		for i := range s.ResIDs {
			s.resID(i) // planned resource types first, the rest of the registry is filled with extras
		}
		have := len(ecs.ResourceIDs(s.W))
		for i := have; i < ecs.MaskTotalBits; i++ {
			ecs.ResourceTypeID(s.W, reflect.StructOf([]reflect.StructField{{Name: fmt.Sprintf("XR%d", i), Type: reflect.TypeOf(uint8(0))}}))
		}
		refused = false
		func() {
			defer func() {
				if r := recover(); r != nil {
					refused = true
				}
			}()
			ecs.ResourceTypeID(s.W, reflect.StructOf([]reflect.StructField{{Name: "XRover", Type: reflect.TypeOf(uint8(0))}}))
		}()
		if !refused {
			return e.viol("type-limit", nil, "resource type number %d was registered (limit %d)", ecs.MaskTotalBits+1, ecs.MaskTotalBits)
		}
		e.extraRes = true
	}
	return nil
}

// batchAsSingles executes a (legal) batch step as the corresponding single-entity call for every matching entity.
// Used only by the differential attribution of C08: if a failing trace is clean when run this way, the batch
// implementation does not equal the loop of singles.
func (e *Engine) batchAsSingles(op *COp, matched []*MEnt) *Violation {
	for _, me := range append([]*MEnt{}, matched...) {
		var sop *COp
		switch op.Variant {
		case "Batch.RemoveEntities":
			sop = &COp{Kind: "rm", Ent: me.H, Rel: -1}
		case "Batch.SetRelation", "Relations.SetBatch":
			sop = &COp{Kind: "setrel", Variant: "Relations.Set", Ent: me.H, Rel: op.Rel, Target: op.Target}
		case "Relations.ExchangeBatch":
			sop = &COp{Kind: "xchg", Variant: "Relations.Exchange", Ent: me.H, Add: op.Add, Rem: op.Rem, Rel: op.Rel, HasTgt: true, Target: op.Target}
		default:
			sop = &COp{Kind: "xchg", Variant: "Exchange", Ent: me.H, Add: op.Add, Rem: op.Rem, Rel: -1}
		}
		_, ok, v := e.issue(sop, "")
		if v != nil {
			return v
		}
		if !ok {
			continue
		}
		switch sop.Kind {
		case "rm":
			e.commitRemove(me)
		case "setrel":
			e.commitSetRel(sop, me)
		default:
			e.commitExchange(sop, me)
		}
	}
	return nil
}
