package sim

import (
	"fmt"
	"reflect"
	"runtime"
	"unsafe"

	"github.com/mlange-42/arche/ecs"
	"github.com/mlange-42/arche/ecs/event"
	"github.com/mlange-42/arche/generic"
	"github.com/mlange-42/arche/listener"
)

// COp is a fully resolved (concrete) public-API call.
type COp struct {
	Kind    string      `json:"kind"`
	Variant string      `json:"variant,omitempty"`
	Ent     ecs.Entity  `json:"ent,omitempty"`
	Target  ecs.Entity  `json:"target,omitempty"`
	HasTgt  bool        `json:"hasTgt,omitempty"` // the variadic / explicit target argument is given
	Add     []int       `json:"add,omitempty"`
	Rem     []int       `json:"rem,omitempty"`
	Vals    [][]byte    `json:"vals,omitempty"` // values for Add (component-value paths)
	With    bool        `json:"with,omitempty"` // use the component-value path (NewEntityWith, Assign, NewBuilderWith)
	Rel     int         `json:"rel"`            // relation type index for WithRelation / Relations.*; -1 = none
	Slot    int         `json:"slot,omitempty"` // filter slot
	Cached  bool        `json:"cached,omitempty"`
	Q       bool        `json:"q,omitempty"`
	Count   int         `json:"count,omitempty"`
	K       int         `json:"k,omitempty"`
	Type    int         `json:"type,omitempty"`
	Val     []byte      `json:"val,omitempty"`
	QSlot   int         `json:"qslot,omitempty"`
	K2      int         `json:"k2,omitempty"`
	Res     int         `json:"res,omitempty"`
	Spec    *FilterSpec `json:"spec,omitempty"`
	Illegal string      `json:"illegal,omitempty"` // illegal class the generator aimed for ("" = legal intent)
	// CloneOf[i] != zero: the value of Add[i] is handed over as the pointer World.Get returns for that entity's component
	// ("clone a template entity"); Vals[i] is that entity's value
	CloneOf []ecs.Entity `json:"cloneOf,omitempty"`
}

// Result of applying a COp to a real world.
type Result struct {
	Panicked   bool
	RuntimeErr bool
	Msg        string
	Ent        ecs.Entity
	Ents       []ecs.Entity
	Count      int
	Bool       bool
	Ptr        unsafe.Pointer
	Any        interface{}
	Query      *ecs.Query
}

// Ev is a recorded event plus the world's answers at delivery time.
type Ev struct {
	MEv
	AddedIDs, RemovedIDs uint32
	IDsDup               bool
	Locked               bool
	AliveAtDelivery      bool
	MaskAtDelivery       uint32
	MaskOK               bool
	TargetAtDelivery     ecs.Entity
	ChaosEscaped         bool   // a structural call inside a removal notification did not panic
	UnlockedAfterNested  bool   // the notification opened and closed as many nested queries as the world allowed and found the world unlocked
	Foreign              bool   // event mentions an ID that is not a live type
	RetainedChanged      bool   // a relation ID pointer kept from an EARLIER event no longer shows the ID it showed at delivery
	ValT                 int    // live type whose value the listener read (and then overwrote) at delivery, -1 = none
	ValAtDelivery        []byte // what it read
	Wrote                []byte // what it wrote through the Get pointer (legal: the world is unlocked)
}

// Spawn is an entity created by the listener inside a notification.
type Spawn struct {
	H      ecs.Entity
	Set    uint32
	Target ecs.Entity
}

// Sys wraps one real world with everything that belongs to it.
type Sys struct {
	Name      string
	W         *ecs.World
	Types     []reflect.Type
	IDs       []ecs.ID
	Reg       []bool
	idxOfID   map[uint8]int
	Fillers   int
	ResIDs    []ecs.ResID
	ResReg    []bool
	resOrder  []int
	ResVals   []interface{}
	Filters   []ecs.Filter
	Cached    []*ecs.CachedFilter
	Open      []*ecs.Query
	Events    []Ev
	Subs      [][]Ev // per restricted / dispatch member received events
	lis       ecs.Listener
	dispatch  *listener.Dispatch
	chaos     bool
	specs     []TypeSpec
	cfg       ecs.Config
	nextFill  int
	regOrder  []int // live type indices in registration order (-1-n for filler n)
	fillCount map[int]int
	lastUnreg *ecs.CachedFilter
	chaosSeq  int
	mappers   [nStaticRes]interface{} // persistent generic.Resource mappers

	listenerRes bool
	applySeq    int
	probeID     ecs.ID // load twins: a component type to call the unchecked accessors with
	hasProbe    bool

	// relation ID pointers kept from the previous event, and what they showed then (an event is a record: what it
	// points to must not change afterwards, whatever this or any other world does)
	keptRel    [2]*ecs.ID
	keptRelVal [2]ecs.ID

	// queries that the listener opened inside a removal notification and did NOT close before returning (legal: a query
	// may be opened on a locked world and outlive the removal's own lock); released by Apply right after the operation
	cloneOf     []ecs.Entity

	// a listener that detaches itself (SetListener(nil)) inside the LAST removal notification of an operation; the
	// engine re-installs it right after the operation
	detachAt int
	rmSeen   int
	detached bool
	OnNotify    func() // C19: lets the scheduler run a step of ANOTHER world in the middle of this world's notification

	// entities the all-events listener created inside a notification of the running operation (world unlocked: legal)
	spawnOn      bool // plan knob
	SpawnOK      bool // set by the engine before each operation (room in the model, no lock-step twins)
	inApply      bool
	spawning     bool
	spawnSeq     int
	Spawned      []Spawn
	SpawnTrouble string
	kept        []*ecs.Query
	KeptTrouble string
	KeptSeen    int
	NestedBatches int
	builders      map[string]*ecs.Builder
	BuilderReused int
	DetachSeen  int
}

var allSubs = event.Subscription(63)

func NewSys(name string, p *Plan) *Sys {
	cfg := ecs.NewConfig().WithCapacityIncrement(p.CapInc).WithRelationCapacityIncrement(p.RelCapInc)
	w := ecs.NewWorld(cfg)
	if p.CapInc == 128 && p.RelCapInc == 0 {
		w = ecs.NewWorld() // the default configuration, spelled the way most users do
	}
	s := &Sys{Name: name, W: &w, cfg: cfg, specs: p.Types, idxOfID: map[uint8]int{}, listenerRes: p.ListenerRes}
	ptrSeq := 0
	for k, t := range p.Types {
		s.Types = append(s.Types, BuildType(t, k, &ptrSeq))
	}
	s.IDs = make([]ecs.ID, len(p.Types))
	s.Reg = make([]bool, len(p.Types))
	for k, t := range p.Types {
		if !t.Late {
			s.RegisterType(k)
		}
	}
	s.ResIDs = make([]ecs.ResID, p.ResTypes)
	s.ResReg = make([]bool, p.ResTypes)
	for i := 0; i < p.ResTypes; i++ {
		// odd indices are registered up front, even ones at first use (possibly in a locked world); plans with many
		// resource types register nearly all of them up front so that the high IDs are reached at all
		up := i%2 == 1 || (p.ResTypes > 32 && i%37 != 0)
		switch p.ResLazy {
		case 1:
			up = false
		case 2:
			up = i%3 == 0
		}
		if up {
			s.resID(i)
		}
	}
	s.ResVals = make([]interface{}, p.ResTypes)
	return s
}

// RegisterType registers live type k (preceded by its fillers). Returns the panic message, if any.
func (s *Sys) RegisterType(k int) (msg string, panicked bool) {
	defer func() {
		if r := recover(); r != nil {
			msg, panicked = fmt.Sprint(r), true
		}
	}()
	for s.fillersDone(k) < s.specs[k].Fillers {
		registerFiller(s.W, s.nextFill)
		s.regOrder = append(s.regOrder, -1-s.nextFill)
		s.nextFill++
		s.fillCount[k]++
	}
	id := ecs.TypeID(s.W, s.Types[k])
	s.IDs[k] = id
	s.Reg[k] = true
	s.idxOfID[idOf(id)] = k
	s.regOrder = append(s.regOrder, k)
	return "", false
}

// Static resource types (needed for the generic access paths).
type SR0 struct{ V uint64 }
type SR1 struct{ V, W uint64 }
type SR2 struct{ V uint32 }
type SR3 struct{ S string }

const nStaticRes = 4

// resID returns the ID of resource index i, registering the type at first use.
func (s *Sys) resID(i int) ecs.ResID {
	if s.ResReg[i] {
		return s.ResIDs[i]
	}
	var id ecs.ResID
	switch i {
	case 0:
		id = ecs.ResourceID[SR0](s.W)
	case 1:
		r1 := generic.NewResource[SR1](s.W)
		id = r1.ID()
	case 2:
		id = ecs.ResourceTypeID(s.W, reflect.TypeOf(SR2{}))
	case 3:
		id = ecs.ResourceID[SR3](s.W)
	default:
		id = ecs.ResourceTypeID(s.W, ResType(i))
	}
	s.ResIDs[i], s.ResReg[i] = id, true
	s.resOrder = append(s.resOrder, i)
	return id
}

func resTypeOf(i int) reflect.Type {
	switch i {
	case 0:
		return reflect.TypeOf(SR0{})
	case 1:
		return reflect.TypeOf(SR1{})
	case 2:
		return reflect.TypeOf(SR2{})
	case 3:
		return reflect.TypeOf(SR3{})
	}
	return ResType(i)
}

func nilIfNilPtr[T any](p *T) interface{} {
	if p == nil {
		return nil
	}
	return p
}

// staticRes performs a resource operation on one of the static resource types through the generic access paths.
// path 1: generic.Resource[T]; path 2: ecs.AddResource / ecs.GetResource.
func staticRes[T any](s *Sys, slot int, variant string, path int, mk func() *T, res *Result) {
	w := s.W
	// the generic mapper is created once and kept, like a system would keep it
	var r *generic.Resource[T]
	if s.mappers[slot] == nil {
		m := generic.NewResource[T](w)
		s.mappers[slot] = &m
	}
	r = s.mappers[slot].(*generic.Resource[T])
	switch variant {
	case "Add":
		v := mk()
		if s.applySeq%9 == 4 {
			v = nil // a typed nil pointer is a value like any other: the resource is present, Get returns nil
		}
		if path == 2 {
			ecs.AddResource[T](w, v)
		} else {
			r.Add(v)
		}
		res.Any = v
	case "Remove":
		r.Remove()
	case "Get":
		if path == 2 {
			res.Any = nilIfNilPtr(ecs.GetResource[T](w))
		} else {
			res.Any = nilIfNilPtr(r.Get())
		}
	case "Has":
		res.Bool = r.Has()
	}
}

func idOf(id ecs.ID) uint8 { return *(*uint8)(unsafe.Pointer(&id)) }

func (s *Sys) fillersDone(k int) int {
	if s.fillCount == nil {
		s.fillCount = map[int]int{}
	}
	return s.fillCount[k]
}

// maskToSet converts a real mask into a set of live type indices. foreign: the mask holds other IDs.
func (s *Sys) maskToSet(m *ecs.Mask) (set uint32, foreign bool) {
	n := m.TotalBitsSet()
	for k, ok := range s.Reg {
		if ok && m.Get(s.IDs[k]) {
			set |= 1 << uint(k)
			n--
		}
	}
	return set, n != 0
}

func (s *Sys) idsToSet(ids []ecs.ID) (set uint32, dup, foreign bool) {
	for _, id := range ids {
		k, ok := s.idxOfID[idOf(id)]
		if !ok {
			foreign = true
			continue
		}
		if set&(1<<uint(k)) != 0 {
			dup = true
		}
		set |= 1 << uint(k)
	}
	return
}

type recListener struct {
	s    *Sys
	subs event.Subscription
	comp *ecs.Mask
	sink int // -1: main event list; >=0: Subs[sink]
}

func (l *recListener) Subscriptions() event.Subscription { return l.subs }
func (l *recListener) Components() *ecs.Mask             { return l.comp }
func (l *recListener) Notify(w *ecs.World, e ecs.EntityEvent) {
	s := l.s
	if l.sink < 0 && s.OnNotify != nil {
		s.OnNotify()
	}
	ev := Ev{}
	ev.Ent = e.Entity
	var f1, f2, f3, f4 bool
	ev.Added, f1 = s.maskToSet(&e.Added)
	ev.Removed, f2 = s.maskToSet(&e.Removed)
	var d1, d2 bool
	ev.AddedIDs, d1, f3 = s.idsToSet(e.AddedIDs)
	ev.RemovedIDs, d2, f4 = s.idsToSet(e.RemovedIDs)
	ev.IDsDup = d1 || d2
	ev.Foreign = f1 || f2 || f3 || f4
	for i, p := range s.keptRel {
		if p != nil && *p != s.keptRelVal[i] {
			ev.RetainedChanged = true
		}
	}
	if l.sink < 0 {
		s.keptRel = [2]*ecs.ID{e.OldRelation, e.NewRelation}
		for i, p := range s.keptRel {
			if p != nil {
				s.keptRelVal[i] = *p
			}
		}
	}
	ev.OldRel, ev.NewRel = -1, -1
	if e.OldRelation != nil {
		if k, ok := s.idxOfID[idOf(*e.OldRelation)]; ok {
			ev.OldRel = k
		} else {
			ev.Foreign = true
		}
	}
	if e.NewRelation != nil {
		if k, ok := s.idxOfID[idOf(*e.NewRelation)]; ok {
			ev.NewRel = k
		} else {
			ev.Foreign = true
		}
	}
	ev.OldTarget = e.OldTarget
	ev.Types = uint8(e.EventTypes)
	ev.Locked = w.IsLocked()
	func() {
		defer func() { recover() }()
		ev.AliveAtDelivery = w.Alive(e.Entity)
		if ev.AliveAtDelivery {
			m := w.Mask(e.Entity)
			var fr bool
			ev.MaskAtDelivery, fr = s.maskToSet(&m)
			ev.MaskOK = !fr
			if e.NewRelation != nil && !e.Contains(event.EntityRemoved) {
				ev.TargetAtDelivery = w.Relations().Get(e.Entity, *e.NewRelation)
			}
			if e.Contains(event.EntityRemoved) && e.OldRelation != nil {
				ev.TargetAtDelivery = w.Relations().Get(e.Entity, *e.OldRelation)
			}
		}
	}()
	ev.ValT = -1
	if l.sink < 0 && !e.Contains(event.EntityRemoved) && ev.AliveAtDelivery && !ev.Locked {
		// a listener that looks at the new state of the entity and changes a value: the event comes after the change, so
		// it sees the values the operation gave, and what it writes stays
		for k := 0; k < len(s.Reg); k++ {
			t := (k + int(e.Entity.ID())) % len(s.Reg)
			if !s.Reg[t] || ev.MaskAtDelivery&(1<<uint(t)) == 0 {
				continue
			}
			switch s.specs[t].Kind {
			case "bytes", "aligned", "padded", "array", "rel", "rellater", "relnamed":
			default:
				continue
			}
			n := int(s.Types[t].Size())
			if n == 0 || n > 64 {
				continue
			}
			func() {
				defer func() { recover() }()
				p := w.Get(e.Entity, s.IDs[t])
				if p == nil {
					return
				}
				ev.ValAtDelivery = readBytes(p, n)
				b := make([]byte, n)
				for i := range b {
					b[i] = byte(0xA5 ^ int(e.Entity.ID())*31 ^ int(e.Entity.Generation())*7 ^ t*13 ^ i*3 ^ int(ev.Types))
				}
				writeBytes(p, b)
				ev.ValT, ev.Wrote = t, b
			}()
			break
		}
	}
	if l.sink < 0 && s.spawnOn && s.SpawnOK && s.inApply && !s.spawning && l.subs == allSubs && l.comp == nil &&
		!ev.Locked && !e.Contains(event.EntityRemoved) && ev.AliveAtDelivery && len(s.Spawned) < 2 {
		// a listener that reacts to a change by creating a companion entity: events come after the change with the
		// world unlocked, so this is an ordinary creation - in the middle of whatever operation is announcing its events
		s.spawnSeq++
		if s.spawnSeq%3 == 1 {
			s.spawn(w, &e, &ev)
		} else if s.spawnSeq%3 == 2 {
			s.nestedBatch(w, &e)
		}
	}
	if l.sink < 0 && s.chaos && e.Contains(event.EntityRemoved) {
		// a listener that opens as many queries as the world lets it and closes them again: the removal's own lock
		// must survive that
		if s.chaosSeq%8 == 3 {
			var qs []*ecs.Query
			for i := 0; i < ecs.MaskTotalBits+4; i++ {
				ok := func() (ok bool) {
					defer func() { ok = recover() == nil }()
					q := w.Query(ecs.All())
					qs = append(qs, &q)
					return
				}()
				if !ok {
					break
				}
			}
			for i := range qs {
				q := qs[(i*7+3)%len(qs)] // some order that is neither first-in-first-out nor last-in-first-out
				if len(qs)%7 == 0 {
					q = qs[i]
				}
				func() {
					defer func() { recover() }()
					q.Close()
				}()
			}
			ev.UnlockedAfterNested = !w.IsLocked()
		}
		// a listener that opens a query and keeps it beyond the notification: its lock must outlive the removal's own
		if s.chaosSeq%8 == 5 && len(s.kept) < 2 {
			func() {
				defer func() { recover() }()
				q := w.Query(ecs.All())
				s.kept = append(s.kept, &q)
			}()
		}
		// a listener that tries to modify the world inside a removal notification: must be refused
		escaped := false
		func() {
			defer func() { recover() }()
			s.chaosSeq++
			var anyID ecs.ID
			have := false
			for k, ok := range s.Reg {
				if ok {
					anyID, have = s.IDs[k], true
					break
				}
			}
			switch s.chaosSeq % 10 {
			case 0:
				w.NewEntity()
			case 1:
				w.RemoveEntity(e.Entity)
			case 2:
				w.Reset()
			case 3:
				ecs.NewBuilder(w).NewBatch(2)
			case 4:
				w.Batch().RemoveEntities(ecs.All())
			case 5:
				if have {
					w.Batch().Add(ecs.All(), anyID)
				} else {
					w.NewEntity()
				}
			case 6:
				if e.OldRelation != nil {
					w.Relations().Set(e.Entity, *e.OldRelation, ecs.Entity{})
					w.Relations().Set(e.Entity, *e.OldRelation, e.Entity)
				} else {
					w.NewEntity()
				}
			case 7:
				if len(e.RemovedIDs) > 0 {
					w.Remove(e.Entity, e.RemovedIDs[0])
				} else {
					w.NewEntity()
				}
			case 8:
				d := w.DumpEntities()
				w.LoadEntities(&d)
			default:
				if have {
					w.Exchange(e.Entity, nil, e.RemovedIDs)
				}
				w.NewEntityWith()
			}
			escaped = true
		}()
		ev.ChaosEscaped = escaped
		// and a complete read-only query, which must work and must release its lock
		func() {
			defer func() { recover() }()
			q := w.Query(ecs.All())
			for q.Next() {
			}
		}()
	}
	if l.sink < 0 && s.detachAt > 0 && e.Contains(event.EntityRemoved) {
		s.rmSeen++
		if s.rmSeen == s.detachAt {
			w.SetListener(nil)
			s.detached = true
		}
	}
	if l.sink < 0 {
		s.Events = append(s.Events, ev)
	} else {
		s.Subs[l.sink] = append(s.Subs[l.sink], ev)
	}
}

// InstallListener installs the all-events recording listener.
func (s *Sys) InstallListener(chaos bool) {
	s.chaos = chaos
	s.lis = &recListener{s: s, subs: allSubs, comp: nil, sink: -1}
	s.W.SetListener(s.lis)
}

func (s *Sys) subMask(c []int) *ecs.Mask {
	if len(c) == 0 {
		return nil
	}
	m := ecs.All()
	for _, k := range c {
		if s.Reg[k] {
			m.Set(s.IDs[k], true)
		}
	}
	return &m
}

// InstallRestrictedPrimary installs a restricted recording listener on the primary world (events go to the main list).
func (s *Sys) InstallRestrictedPrimary(sub Sub, chaos bool) {
	s.chaos = chaos
	s.lis = &recListener{s: s, subs: event.Subscription(sub.S), comp: s.subMask(sub.C), sink: -1}
	s.W.SetListener(s.lis)
}

// InstallRestricted installs one restricted recording listener (events go to Subs[0]).
func (s *Sys) InstallRestricted(sub Sub) {
	s.Subs = [][]Ev{nil}
	s.lis = &recListener{s: s, subs: event.Subscription(sub.S), comp: s.subMask(sub.C), sink: 0}
	s.W.SetListener(s.lis)
}

// InstallDispatch installs a listener.Dispatch; members with LateAt == 0 are present from the start.
func (s *Sys) InstallDispatch(subs []Sub) {
	s.Subs = make([][]Ev, len(subs))
	var ls []ecs.Listener
	for i, sub := range subs {
		if sub.LateAt == 0 {
			ls = append(ls, s.member(i, sub))
		}
	}
	d := listener.NewDispatch(ls...)
	s.dispatch = &d
	s.lis = s.dispatch
	s.W.SetListener(s.lis)
}

func (s *Sys) member(i int, sub Sub) ecs.Listener {
	sink := i
	var ids []ecs.ID
	for _, k := range sub.C {
		if s.Reg[k] {
			ids = append(ids, s.IDs[k])
		}
	}
	if len(ids) == 0 && i%2 == 1 {
		ids = []ecs.ID{} // no component restriction, spelled as an empty list instead of none at all
	}
	rl := &recListener{s: s, sink: sink}
	cb := listener.NewCallback(func(w *ecs.World, e ecs.EntityEvent) { rl.Notify(w, e) }, event.Subscription(sub.S), ids...)
	return &cb
}

func (s *Sys) AddMember(i int, sub Sub) {
	if s.dispatch != nil {
		s.dispatch.AddListener(s.member(i, sub))
	}
}

func (s *Sys) comps(ts []int, vals [][]byte) []ecs.Component {
	out := make([]ecs.Component, len(ts))
	for i, t := range ts {
		var v []byte
		if i < len(vals) {
			v = vals[i]
		}
		if i < len(s.cloneOf) && !s.cloneOf[i].IsZero() && s.W.Alive(s.cloneOf[i]) {
			if p := s.W.Get(s.cloneOf[i], s.IDs[t]); p != nil {
				out[i] = ecs.Component{ID: s.IDs[t], Comp: reflect.NewAt(s.Types[t], p).Interface()}
				continue
			}
		}
		out[i] = ecs.Component{ID: s.IDs[t], Comp: s.makeValue(t, v)}
	}
	return out
}

// makeValue builds a pointer-in-interface value of live type t from the model representation.
func (s *Sys) makeValue(t int, v []byte) interface{} {
	if s.specs[t].IsPtr() {
		return makePtrValue(s.Types[t], leU64(v))
	}
	b := make([]byte, s.Types[t].Size())
	copy(b, v)
	return newValue(s.Types[t], b)
}

func leU64(b []byte) uint64 {
	var x uint64
	for i := 0; i < 8 && i < len(b); i++ {
		x |= uint64(b[i]) << (8 * uint(i))
	}
	return x
}

func u64LE(x uint64) []byte {
	b := make([]byte, 8)
	for i := 0; i < 8; i++ {
		b[i] = byte(x >> (8 * uint(i)))
	}
	return b
}

// canaryHook, if set, is told about every canary object created for a component value (C14 weak ledger).
var canaryHook func(c uint64, p *Canary)

func hookedCanary(c uint64) *Canary {
	p := newCanary(c)
	if canaryHook != nil {
		canaryHook(c, p)
	}
	return p
}

func makePtrValue(tp reflect.Type, c uint64) interface{} {
	switch tp {
	case ptrTypes[0]:
		if c == 0 {
			return &PtrA{}
		}
		return &PtrA{P: hookedCanary(c), S: []uint64{c, c + 1, c + 2}, Str: canaryStr(c), M: map[uint64]uint64{c: c + 1}}
	case ptrTypes[1]:
		if c == 0 {
			return &PtrB{}
		}
		return &PtrB{Pad: uint32(c), P: hookedCanary(c), S: []uint64{c, c + 1, c + 2}}
	case ptrTypes[2]:
		if c == 0 {
			return &PtrC{}
		}
		return &PtrC{Str: canaryStr(c), P: hookedCanary(c)}
	case ptrTypes[3]:
		if c == 0 {
			return &PtrD{}
		}
		cp := hookedCanary(c)
		d := &PtrD{I: cp, F: func() uint64 { return cp.ID + 1 }}
		d.A[0].N, d.A[0].P = c, cp
		d.A[1].N, d.A[1].P = c+1, cp
		return d
	case ptrTypes[4]:
		if c == 0 {
			return &PtrE{}
		}
		return &PtrE{N: c, U: unsafe.Pointer(hookedCanary(c))}
	case ptrRelType:
		if c == 0 {
			return &PtrRel{}
		}
		return &PtrRel{P: hookedCanary(c)}
	}
	panic("not a pointer type")
}

// readPtrValue reads back the canary id held by a pointer-carrying component and verifies everything it references.
// ok=false means referenced data is missing or corrupt.
func readPtrValue(tp reflect.Type, p unsafe.Pointer) (c uint64, ok bool) {
	chk := func(cp *Canary, sl []uint64, hasS bool, str string, hasStr bool, m map[uint64]uint64, hasM bool) (uint64, bool) {
		if cp == nil {
			if (hasS && sl != nil) || (hasStr && str != "") || (hasM && m != nil) {
				return 0, false
			}
			return 0, true
		}
		id := cp.ID
		if !canaryOK(cp, id) || id == 0 {
			return id, false
		}
		if hasS && (len(sl) != 3 || sl[0] != id || sl[1] != id+1 || sl[2] != id+2) {
			return id, false
		}
		if hasStr && str != canaryStr(id) {
			return id, false
		}
		if hasM && (len(m) != 1 || m[id] != id+1) {
			return id, false
		}
		return id, true
	}
	switch tp {
	case ptrTypes[0]:
		v := (*PtrA)(p)
		return chk(v.P, v.S, true, v.Str, true, v.M, true)
	case ptrTypes[1]:
		v := (*PtrB)(p)
		c, ok := chk(v.P, v.S, true, "", false, nil, false)
		if ok && v.Pad != uint32(c) {
			return c, false
		}
		return c, ok
	case ptrTypes[2]:
		v := (*PtrC)(p)
		return chk(v.P, nil, false, v.Str, true, nil, false)
	case ptrTypes[3]:
		v := (*PtrD)(p)
		c, ok := chk(v.A[0].P, nil, false, "", false, nil, false)
		if v.A[0].P == nil {
			return 0, v.A[1].P == nil && v.I == nil && v.F == nil
		}
		if !ok {
			return c, false
		}
		ip, _ := v.I.(*Canary)
		if v.A[1].P != v.A[0].P || ip != v.A[0].P || v.A[0].N != c || v.A[1].N != c+1 || v.F == nil || v.F() != c+1 {
			return c, false
		}
		return c, true
	case ptrTypes[4]:
		v := (*PtrE)(p)
		c, ok := chk((*Canary)(v.U), nil, false, "", false, nil, false)
		if ok && v.N != c {
			return c, false
		}
		return c, ok
	case ptrRelType:
		v := (*PtrRel)(p)
		return chk(v.P, nil, false, "", false, nil, false)
	}
	panic("not a pointer type")
}

// ReadValue returns the model representation of the component value behind p.
func (s *Sys) ReadValue(t int, p unsafe.Pointer) (v []byte, ok bool) {
	if s.specs[t].IsPtr() {
		c, ok := readPtrValue(s.Types[t], p)
		return u64LE(c), ok
	}
	return readBytes(p, int(s.Types[t].Size())), true
}

// WriteValue writes through a component pointer (the "Get pointer" access path).
func (s *Sys) WriteValue(t int, p unsafe.Pointer, v []byte) {
	if s.specs[t].IsPtr() {
		src := reflect.ValueOf(makePtrValue(s.Types[t], leU64(v))).Elem()
		reflect.NewAt(s.Types[t], p).Elem().Set(src)
		return
	}
	b := make([]byte, s.Types[t].Size())
	copy(b, v)
	writeBytes(p, b)
}

func (s *Sys) filterFor(op *COp) ecs.Filter {
	if op.Cached && s.Cached[op.Slot] != nil {
		return s.Cached[op.Slot]
	}
	return s.Filters[op.Slot]
}

func (s *Sys) relID(op *COp) ecs.ID {
	if op.Rel >= 0 {
		return s.IDs[op.Rel]
	}
	return ecs.ID{}
}

func (s *Sys) builder(op *COp) *ecs.Builder {
	var b *ecs.Builder
	key := ""
	if op.With {
		b = ecs.NewBuilderWith(s.W, s.comps(op.Add, op.Vals)...)
	} else {
		// ID-based builders are long-lived objects in user code: two calls in three re-use the builder made earlier for
		// the same component list and relation - across any number of operations, target deaths and resets
		key = fmt.Sprint(op.Add, op.Rel)
		if kept, ok := s.builders[key]; ok && s.applySeq%3 != 0 {
			s.BuilderReused++
			return kept
		}
		b = ecs.NewBuilder(s.W, s.tIDs(op.Add)...)
	}
	if op.Rel >= 0 {
		b = b.WithRelation(s.IDs[op.Rel])
	}
	if key != "" {
		if s.builders == nil || len(s.builders) > 64 {
			s.builders = map[string]*ecs.Builder{}
		}
		s.builders[key] = b
	}
	return b
}

// Apply executes a concrete op on the real world, recovering panics.
// tIDs converts type indices to IDs; an empty list is nil in every second call and empty-but-not-nil in the others.
func (s *Sys) tIDs(ts []int) []ecs.ID {
	if len(ts) == 0 && s.applySeq%2 == 0 {
		return nil
	}
	return toIDs(s.IDs, ts)
}

func (s *Sys) Apply(op *COp) (res Result) {
	defer func() {
		if r := recover(); r != nil {
			res.Panicked = true
			res.Msg = fmt.Sprint(r)
			if _, isErr := r.(runtime.Error); isErr {
				res.RuntimeErr = true
			}
		}
		if len(s.kept) > 0 {
			s.releaseKept()
		}
		if s.detached {
			s.W.SetListener(s.lis)
			s.detached = false
			s.DetachSeen++
		}
		s.detachAt, s.rmSeen = 0, 0
	}()
	w := s.W
	s.applySeq++
	s.cloneOf = op.CloneOf
	s.inApply = true
	defer func() { s.inApply = false }()
	if s.chaos && s.dispatch == nil && s.applySeq%4 == 2 && !w.IsLocked() {
		if rl, ok := s.lis.(*recListener); ok && rl.sink < 0 && rl.subs == allSubs && rl.comp == nil {
			switch {
			case op.Kind == "rm":
				s.detachAt = 1
			case op.Kind == "batch" && op.Variant == "Batch.RemoveEntities":
				func() {
					defer func() { recover() }()
					q := w.Query(s.filterFor(op))
					s.detachAt = q.Count()
					q.Close()
				}()
			}
		}
	}
	switch op.Kind {
	case "new":
		switch op.Variant {
		case "NewEntity":
			res.Ent = w.NewEntity(s.tIDs(op.Add)...)
		case "NewEntityWith":
			res.Ent = w.NewEntityWith(s.comps(op.Add, op.Vals)...)
		case "Builder.New":
			b := s.builder(op)
			if op.HasTgt {
				res.Ent = b.New(op.Target)
			} else {
				res.Ent = b.New()
			}
		}
	case "newbatch":
		b := s.builder(op)
		if op.Q {
			var q ecs.Query
			if op.HasTgt {
				q = b.NewBatchQ(op.Count, op.Target)
			} else {
				q = b.NewBatchQ(op.Count)
			}
			res.Query = &q
		} else {
			if op.HasTgt {
				b.NewBatch(op.Count, op.Target)
			} else {
				b.NewBatch(op.Count)
			}
		}
	case "rm":
		w.RemoveEntity(op.Ent)
	case "xchg":
		switch op.Variant {
		case "Add":
			w.Add(op.Ent, s.tIDs(op.Add)...)
		case "Remove":
			w.Remove(op.Ent, s.tIDs(op.Rem)...)
		case "Exchange":
			w.Exchange(op.Ent, s.tIDs(op.Add), s.tIDs(op.Rem))
		case "Relations.Exchange":
			w.Relations().Exchange(op.Ent, s.tIDs(op.Add), s.tIDs(op.Rem), s.relID(op), op.Target)
		case "Assign":
			w.Assign(op.Ent, s.comps(op.Add, op.Vals)...)
		case "Builder.Add":
			b := s.builder(op)
			if op.HasTgt {
				b.Add(op.Ent, op.Target)
			} else {
				b.Add(op.Ent)
			}
		}
	case "set":
		switch op.Variant {
		case "Set":
			res.Ptr = w.Set(op.Ent, s.IDs[op.Type], s.makeValue(op.Type, op.Val))
		case "SetLiteral", "MapSetLiteral":
			p, ok := literalSet(w, s.Types[op.Type], op.Ent, s.IDs[op.Type], leU64(op.Val), op.Variant == "MapSetLiteral")
			if !ok {
				p = w.Set(op.Ent, s.IDs[op.Type], s.makeValue(op.Type, op.Val))
			}
			// reuse the stack region the helper's frame occupied (a later call would do the same sooner or later)
			clobberSink += clobber(24)
			res.Ptr = p
		case "GetWrite":
			p := w.Get(op.Ent, s.IDs[op.Type])
			res.Ptr = p
			if p != nil {
				s.WriteValue(op.Type, p, op.Val)
			}
		case "GetUncheckedWrite":
			p := w.GetUnchecked(op.Ent, s.IDs[op.Type])
			res.Ptr = p
			if p != nil {
				s.WriteValue(op.Type, p, op.Val)
			}
		}
	case "setrel":
		w.Relations().Set(op.Ent, s.relID(op), op.Target)
	case "read":
		switch op.Variant {
		case "Get":
			res.Ptr = w.Get(op.Ent, s.IDs[op.Type])
		case "Has":
			res.Bool = w.Has(op.Ent, s.IDs[op.Type])
		case "HasUnchecked":
			res.Bool = w.HasUnchecked(op.Ent, s.IDs[op.Type])
		case "GetUnchecked":
			res.Ptr = w.GetUnchecked(op.Ent, s.IDs[op.Type])
		case "Mask":
			m := w.Mask(op.Ent)
			res.Any = m
		case "Ids":
			res.Any = w.Ids(op.Ent)
		case "Relations.Get":
			res.Ent = w.Relations().Get(op.Ent, s.relID(op))
		case "Alive":
			res.Bool = w.Alive(op.Ent)
		}
	case "batch":
		f := s.filterFor(op)
		add, rem := s.tIDs(op.Add), s.tIDs(op.Rem)
		var q ecs.Query
		switch op.Variant {
		case "Batch.Add":
			if op.Q {
				q = w.Batch().AddQ(f, add...)
			} else {
				res.Count = w.Batch().Add(f, add...)
			}
		case "Batch.Remove":
			if op.Q {
				q = w.Batch().RemoveQ(f, rem...)
			} else {
				res.Count = w.Batch().Remove(f, rem...)
			}
		case "Batch.Exchange":
			if op.Q {
				q = w.Batch().ExchangeQ(f, add, rem)
			} else {
				res.Count = w.Batch().Exchange(f, add, rem)
			}
		case "Relations.ExchangeBatch":
			if op.Q {
				q = w.Relations().ExchangeBatchQ(f, add, rem, s.relID(op), op.Target)
			} else {
				res.Count = w.Relations().ExchangeBatch(f, add, rem, s.relID(op), op.Target)
			}
		case "Batch.SetRelation":
			if op.Q {
				q = w.Batch().SetRelationQ(f, s.relID(op), op.Target)
			} else {
				res.Count = w.Batch().SetRelation(f, s.relID(op), op.Target)
			}
		case "Relations.SetBatch":
			if op.Q {
				q = w.Relations().SetBatchQ(f, s.relID(op), op.Target)
			} else {
				res.Count = w.Relations().SetBatch(f, s.relID(op), op.Target)
			}
		case "Batch.RemoveEntities":
			res.Count = w.Batch().RemoveEntities(f)
		}
		if op.Q {
			res.Query = &q
		}
	case "reset":
		w.Reset()
	case "qopen":
		q := w.Query(s.filterFor(op))
		res.Query = &q
	case "fnew":
		// handled by the engine (AddSlot)
	case "freg":
		switch op.Variant {
		case "Register", "RegisterStorm":
			// a storm is op.Count register/unregister cycles of the same filter first: IDs of registrations are
			// consumed, nothing else may change
			for i := 0; op.Variant == "RegisterStorm" && i < op.Count; i++ {
				tmp := w.Cache().Register(s.Filters[op.Slot])
				w.Cache().Unregister(&tmp)
			}
			cf := w.Cache().Register(s.Filters[op.Slot])
			s.Cached[op.Slot] = &cf
		case "RegisterCached":
			cf := w.Cache().Register(s.Cached[op.Slot])
			_ = cf
		}
	case "funreg":
		switch op.Variant {
		case "Unregister":
			cf := s.Cached[op.Slot]
			res.Any = w.Cache().Unregister(cf)
			s.Cached[op.Slot] = nil
			s.lastUnreg = cf
		case "UnregisterTwice":
			res.Any = w.Cache().Unregister(s.lastUnreg)
		}
	case "res":
		if op.Res < nStaticRes && op.K2 > 0 {
			s.resID(op.Res) // registers the type at first use and records ID and order
			k := uint64(op.K)
			switch op.Res {
			case 0:
				staticRes(s, 0, op.Variant, op.K2, func() *SR0 { return &SR0{V: k} }, &res)
			case 1:
				staticRes(s, 1, op.Variant, op.K2, func() *SR1 { return &SR1{V: k} }, &res)
			case 2:
				staticRes(s, 2, op.Variant, op.K2, func() *SR2 { return &SR2{V: uint32(k)} }, &res)
			case 3:
				staticRes(s, 3, op.Variant, op.K2, func() *SR3 { return &SR3{S: "r"} }, &res)
			}
			break
		}
		id := s.resID(op.Res)
		switch op.Variant {
		case "Add":
			var v interface{}
			switch op.Res {
			case 0:
				v = &SR0{V: uint64(op.K)}
			case 1:
				v = &SR1{V: uint64(op.K)}
			case 2:
				v = &SR2{V: uint32(op.K)}
			case 3:
				v = &SR3{S: "r"}
			default:
				v = &Canary{ID: uint64(op.K)}
				if s.listenerRes && s.lis != nil && op.Res == len(s.ResIDs)-1 {
					v = s.lis // the installed listener doubles as a resource (as the Dispatch documentation suggests)
				}
			}
			w.Resources().Add(id, v)
			res.Any = v
		case "Remove":
			w.Resources().Remove(id)
		case "Get":
			res.Any = w.Resources().Get(id)
		case "Has":
			res.Bool = w.Resources().Has(id)
		}
	default:
		panic("sim: unknown op kind " + op.Kind)
	}
	return res
}

// AddSlot appends a filter slot.
func (s *Sys) AddSlot(spec *FilterSpec) {
	s.Filters = append(s.Filters, spec.Build(s.IDs))
	s.Cached = append(s.Cached, nil)
}

// releaseKept ends the queries a removal notification left open. Until then the world must still be locked by them
// (the removal released only its own lock), must refuse structural calls, and closing each must release exactly one lock.
func (s *Sys) releaseKept() {
	w := s.W
	trouble := ""
	note := func(f string, a ...interface{}) {
		if trouble == "" {
			trouble = fmt.Sprintf(f, a...)
		}
	}
	s.KeptSeen += len(s.kept)
	if !w.IsLocked() {
		note("a query opened inside a removal notification is still open, but the world is unlocked after the removal returned")
	} else {
		refused := func() (refused bool) {
			defer func() { refused = recover() != nil }()
			w.NewEntity()
			return
		}()
		if !refused {
			note("NewEntity succeeded while a query opened inside a removal notification is still open")
		}
	}
	for _, q := range s.kept {
		func() {
			defer func() {
				if r := recover(); r != nil {
					note("closing a query that was opened inside a removal notification panicked: %v", r)
				}
			}()
			q.Close()
		}()
	}
	s.kept = s.kept[:0]
	if trouble != "" && s.KeptTrouble == "" {
		s.KeptTrouble = trouble
	}
}

// spawn creates one entity from inside a notification: with the component set the announced entity has now (its
// destination table), with the set it had before (the table it came from), or without components.
func (s *Sys) spawn(w *ecs.World, e *ecs.EntityEvent, ev *Ev) {
	s.spawning = true
	defer func() {
		s.spawning = false
		if r := recover(); r != nil && s.SpawnTrouble == "" {
			s.SpawnTrouble = fmt.Sprint(r)
		}
	}()
	cur := w.Ids(e.Entity)
	variant := (s.spawnSeq / 3) % 5
	var ids []ecs.ID
	var other ecs.Entity
	switch variant {
	case 3:
		// a sibling of some OTHER entity (found with a query, which is legal here): same components, same target - a table
		// that the announcing operation may not have dealt with yet
		skip := (s.spawnSeq / 12) % 5
		q := w.Query(ecs.All())
		for q.Next() {
			x := q.Entity()
			if x == e.Entity {
				continue
			}
			if skip > 0 {
				skip--
				continue
			}
			other = x
			q.Close()
			break
		}
		if !other.IsZero() {
			ids = w.Ids(other)
		}
	case 0, 4:
		ids = cur // variant 4: ... with the announced entity itself as target: a target that has no table yet
	case 1:
		for _, id := range cur {
			if !e.Added.Get(id) {
				ids = append(ids, id)
			}
		}
		ids = append(ids, e.RemovedIDs...)
	}
	set, dup, foreign := s.idsToSet(ids)
	if dup || foreign {
		return
	}
	rel := -1
	for k := range s.specs {
		if set&(1<<uint(k)) != 0 && s.specs[k].IsRelation() {
			rel = k
		}
	}
	var target ecs.Entity
	if rel >= 0 {
		switch {
		case variant == 3:
			target = w.Relations().Get(other, s.IDs[rel])
		case variant == 4:
			target = e.Entity
		case variant == 0:
			target = ev.TargetAtDelivery
		case e.OldRelation != nil && *e.OldRelation == s.IDs[rel]:
			target = e.OldTarget
		}
		if !target.IsZero() && !w.Alive(target) {
			target = ecs.Entity{}
		}
	}
	var h ecs.Entity
	if rel >= 0 && !target.IsZero() {
		h = ecs.NewBuilder(w, ids...).WithRelation(s.IDs[rel]).New(target)
	} else {
		h = w.NewEntity(ids...)
	}
	s.Spawned = append(s.Spawned, Spawn{H: h, Set: set, Target: target})
}

// nestedBatch runs a batch operation from inside a notification, through a filter that matches nothing (a system that
// sweeps for some condition on every change and usually finds nothing): no effect on the world, but the whole batch
// machinery runs in the middle of the operation that is announcing its events.
func (s *Sys) nestedBatch(w *ecs.World, e *ecs.EntityEvent) {
	defer func() {
		if r := recover(); r != nil && s.SpawnTrouble == "" {
			s.SpawnTrouble = "batch call through a filter that matches nothing: " + fmt.Sprint(r)
		}
	}()
	ids := w.Ids(e.Entity)
	if len(ids) == 0 {
		return
	}
	id := ids[(s.spawnSeq/3)%len(ids)]
	none := ecs.All(id).Without(id)
	n := -1
	switch (s.spawnSeq / 3) % 5 {
	case 0:
		n = w.Batch().Add(&none, id)
	case 1:
		n = w.Batch().Remove(&none, id)
	case 2:
		n = w.Batch().Exchange(&none, nil, []ecs.ID{id})
	case 3:
		n = w.Batch().RemoveEntities(&none)
	default:
		rel := -1
		for _, x := range ids {
			if k, ok := s.idxOfID[idOf(x)]; ok && s.specs[k].IsRelation() {
				rel = k
			}
		}
		if rel < 0 {
			n = w.Batch().RemoveEntities(&none)
		} else {
			none = ecs.All(s.IDs[rel], id).Without(id)
			n = w.Batch().SetRelation(&none, s.IDs[rel], ecs.Entity{})
		}
	}
	s.NestedBatches++
	if n != 0 && s.SpawnTrouble == "" {
		s.SpawnTrouble = fmt.Sprintf("batch call through a filter that matches nothing reports %d entities", n)
	}
}
