package sim

import (
	"bytes"
	"encoding/json"
	"fmt"
	"reflect"
	"strings"

	"github.com/mlange-42/arche/ecs"
)

func shadowClass(kind string) string {
	switch kind {
	case "fresh":
		return "reset-diff"
	case "load":
		return "dump-diff"
	default:
		return "subscription"
	}
}

func (e *Engine) sv(sh *Shadow, op *COp, format string, args ...interface{}) *Violation {
	return &Violation{Class: shadowClass(sh.Kind), Step: e.step, World: sh.S.Name, Op: op, Msg: fmt.Sprintf(format, args...)}
}

// mirror applies an accepted op to the lock-step worlds and compares the results.
func (e *Engine) mirror(op *COp, res Result) *Violation {
	e.lastShadow = map[*Shadow]Result{}
	for _, sh := range e.Shadows {
		if sh.Kind == "load" {
			var r Result
			switch op.Kind {
			case "new":
				r = sh.S.Apply(&COp{Kind: "new", Variant: "NewEntity", Rel: -1})
				if r.Panicked || r.Ent != res.Ent {
					v := e.sv(sh, op, "creation after load issued %v (panic=%v %s), the source world issued %v", r.Ent, r.Panicked, r.Msg, res.Ent)
					if !r.Panicked && (e.M.Issued[r.Ent] || r.Ent.IsZero()) {
						v.Also = append(v.Also, "handle") // C02: a handle issued before is issued again after LoadEntities
					}
					return v
				}
				e.St.Probes["load-twin-handles-compared"]++
			case "newbatch":
				r = sh.S.Apply(&COp{Kind: "newbatch", Variant: "Builder.NewBatch", Count: op.Count, Rel: -1})
				if r.Panicked {
					return e.sv(sh, op, "batch creation after load panicked: %s", r.Msg)
				}
			case "rm":
				r = sh.S.Apply(&COp{Kind: "rm", Ent: op.Ent, Rel: -1})
				if r.Panicked {
					return e.sv(sh, op, "removal after load panicked: %s", r.Msg)
				}
			}
			continue
		}
		var r Result
		if sh.Kind == "fresh" && op.Variant == "Batch.RemoveEntities" {
			// The order in which a batch removal recycles entities is iteration order, which C15 leaves open
			// ("up to iteration order"): give the twin the primary's order as a loop of single removals.
			for _, h := range e.rmOrder {
				r1 := sh.S.Apply(&COp{Kind: "rm", Ent: h, Rel: -1})
				if r1.Panicked {
					return e.sv(sh, op, "removal of %v panicked in the fresh twin: %s", h, r1.Msg)
				}
			}
			r.Count = len(e.rmOrder)
		} else {
			r = sh.S.Apply(op)
		}
		e.lastShadow[sh] = r
		if r.Panicked != res.Panicked {
			return e.sv(sh, op, "%s %s: panic=%v (%s) here, panic=%v in the primary world", op.Kind, op.Variant, r.Panicked, r.Msg, res.Panicked)
		}
		if r.Ent != res.Ent {
			return e.sv(sh, op, "%s %s returned %v here, %v in the primary world", op.Kind, op.Variant, r.Ent, res.Ent)
		}
		if r.Count != res.Count || r.Bool != res.Bool {
			return e.sv(sh, op, "%s %s returned %d/%v here, %d/%v in the primary world", op.Kind, op.Variant, r.Count, r.Bool, res.Count, res.Bool)
		}
	}
	return nil
}

func (e *Engine) mirrorRejected(op *COp) *Violation {
	for _, sh := range e.Shadows {
		if sh.Kind == "load" {
			continue
		}
		r := sh.S.Apply(op)
		if !r.Panicked {
			return e.sv(sh, op, "%s %s is refused by the primary world but accepted here", op.Kind, op.Variant)
		}
	}
	return nil
}

func (e *Engine) shadowHandles(op *COp, res Result) *Violation { return nil }

func (e *Engine) discoverNewIn(s *Sys) []ecs.Entity { return e.discoverNew(s) }

// checkShadow: per-step comparison of a lock-step world.
func (e *Engine) checkShadow(sh *Shadow, full bool) *Violation {
	s := sh.S
	switch sh.Kind {
	case "load":
		if full {
			return e.checkLoad(s)
		}
		return nil
	case "fresh":
		if got := s.W.IsLocked(); got != e.locked() {
			return e.sv(sh, nil, "IsLocked()=%v, primary %v", got, e.locked())
		}
		if e.listening() {
			if v := e.checkEvents(s, "reset-diff"); v != nil {
				v.Class = "reset-diff"
				return v
			}
		}
		for _, k := range sortedEntities(e.touched) {
			if me, ok := e.M.ByH[k]; ok {
				if v := e.checkEntity(s, me, ""); v != nil {
					return override(v, "reset-diff")
				}
			}
		}
		if full {
			return e.checkAll(s, "reset-diff")
		}
	case "restricted", "dispatch":
		return e.checkSubscriptions(sh)
	}
	return nil
}

// afterReset builds the fresh twin (C15).
func (e *Engine) afterReset() *Violation {
	// drop twins that are tied to the pre-reset content
	var keep []*Shadow
	for _, sh := range e.Shadows {
		if sh.Kind == "fresh" || sh.Kind == "load" {
			continue
		}
		keep = append(keep, sh)
	}
	e.Shadows = keep
	for _, sh := range e.Shadows {
		r := sh.S.Apply(&COp{Kind: "reset", Variant: "Reset", Rel: -1})
		if r.Panicked {
			return e.sv(sh, nil, "Reset panicked: %s", r.Msg)
		}
	}
	if !e.P.FreshTwin || e.noTwin {
		return nil
	}
	f := NewSys("fresh", e.P)
	for _, k := range e.S.regOrder {
		if k >= 0 && e.P.Types[k].Late {
			if msg, p := f.RegisterType(k); p {
				return e.viol("reset-diff", nil, "fresh twin could not register type %d: %s", k, msg)
			}
		}
	}
	if len(f.regOrder) != len(e.S.regOrder) {
		return e.viol("oracle-panic", nil, "twin registration order differs (harness bug)")
	}
	for i, spec := range e.Slots {
		f.AddSlot(spec)
		if e.Reg[i] {
			cf := f.W.Cache().Register(f.Filters[i])
			f.Cached[i] = &cf
		}
	}
	if e.listening() {
		if e.P.Listener == "restricted" && e.P.Profile != "C12" {
			f.InstallRestrictedPrimary(Sub{S: e.P.ListenerS, C: e.P.ListenerC}, e.P.ListenerChaos)
		} else {
			f.InstallListener(e.P.ListenerChaos)
		}
	}
	e.Shadows = append(e.Shadows, &Shadow{S: f, Kind: "fresh"})
	e.St.Probes["fresh-twin-built"]++
	return nil
}

// ---------- C17: dump / load ----------

// pendingDump is a dump taken earlier and loaded later: the dump must be a snapshot, unaffected by whatever
// happened to the source world (or to worlds loaded from it) in the meantime.
type pendingDump struct {
	d     ecs.EntityDump
	norm  dumpN
	alive []ecs.Entity
	dead  []ecs.Entity
	step  int
}

func (e *Engine) opDump(c *cursor) *Violation {
	w := e.S.W
	e.St.Ops["dump"]++
	if v := e.checkPendingDump(); v != nil {
		return v
	}
	d := w.DumpEntities()
	norm0 := normDump(d)
	js, err := json.Marshal(d)
	if err != nil {
		return e.viol("dump-diff", nil, "dump does not marshal: %v", err)
	}
	js = reformatJSON(js, e.step)
	var d2 ecs.EntityDump
	if err := json.Unmarshal(js, &d2); err != nil {
		return e.viol("dump-diff", nil, "dump does not unmarshal: %v", err)
	}
	if !reflect.DeepEqual(norm0, normDump(d2)) {
		return e.viol("dump-diff", nil, "dump changed in the JSON round trip")
	}
	// single handles survive JSON
	for i, me := range e.M.Alive {
		if i > 5 {
			break
		}
		b, _ := json.Marshal(me.H)
		b = reformatJSON(b, e.step+i)
		var h ecs.Entity
		if err := json.Unmarshal(b, &h); err != nil || h != me.H {
			return e.viol("dump-diff", nil, "handle %v does not survive the JSON round trip (%s)", me.H, b)
		}
	}
	for i, h := range e.M.Dead {
		if i > 3 {
			break
		}
		b, _ := json.Marshal(h)
		b = reformatJSON(b, e.step+i+1)
		var h2 ecs.Entity
		if err := json.Unmarshal(b, &h2); err != nil || h2 != h {
			return e.viol("dump-diff", nil, "handle %v does not survive the JSON round trip (%s)", h, b)
		}
	}
	e.St.Faults["restart"]++
	// keep the un-marshalled dump for a delayed load
	pd := &pendingDump{d: d, norm: norm0, step: e.step}
	for _, me := range e.M.Alive {
		pd.alive = append(pd.alive, me.H)
	}
	pd.dead = append(pd.dead, e.M.Dead...)
	e.pending = pd

	// two receiving worlds loaded from the SAME dump object: a fresh one and one that had other content and was reset
	resLost := false
	mkWorld := func(reset bool) (*Sys, string) {
		capInc := []int{1, 2, 3, 7, 16, 128}[c.n(6)]
		lw := ecs.NewWorld(ecs.NewConfig().WithCapacityIncrement(capInc))
		if reset {
			n := 1 + c.n(20)
			var hs []ecs.Entity
			for i := 0; i < n; i++ {
				hs = append(hs, lw.NewEntity())
			}
			for i, h := range hs {
				if i%2 == 0 {
					lw.RemoveEntity(h)
				}
			}
			lw.Reset()
			e.St.Probes["load-into-reset-world"]++
		}
		ls := &Sys{Name: "load", W: &lw, idxOfID: map[uint8]int{}}
		type loadProbe struct{ V uint8 }
		ls.probeID, ls.hasProbe = ecs.ComponentID[loadProbe](&lw), true
		// a resource added before loading: LoadEntities is about entities only
		type loadMarker struct{ V uint64 }
		marker := &loadMarker{V: uint64(e.step)}
		rid := ecs.AddResource(&lw, marker)
		var msg string
		func() {
			defer func() {
				if r := recover(); r != nil {
					msg = fmt.Sprint(r)
				}
			}()
			lw.LoadEntities(&d2)
		}()
		if msg == "" && (!lw.Resources().Has(rid) || lw.Resources().Get(rid) != interface{}(marker)) {
			resLost = true
		}
		return ls, msg
	}
	l1, msg := mkWorld(false)
	if msg != "" {
		return e.viol("dump-diff", nil, "LoadEntities into a fresh world panicked: %s", msg)
	}
	if resLost {
		return e.viol("resource", nil, "LoadEntities removed (or replaced) a resource that had been added to the receiving world before")
	}
	l2, msg := mkWorld(true)
	if msg != "" {
		return e.viol("dump-diff", nil, "LoadEntities into a reset world panicked: %s", msg)
	}
	if resLost {
		return e.viol("resource", nil, "LoadEntities into a reset world removed (or replaced) a resource that had been added to it after the reset")
	}
	// refusal: the source world has (or had, since its last reset) entities
	if e.M.Created > 0 || e.locked() {
		refused := false
		func() {
			defer func() {
				if r := recover(); r != nil {
					refused = true
				}
			}()
			w.LoadEntities(&d2)
		}()
		if !refused {
			if e.locked() {
				return e.viol("lock-not-enforced", nil, "LoadEntities was accepted on a locked world")
			}
			return e.viol("load-accepted", nil, "LoadEntities into a world that has or had entities was accepted")
		}
		if v := e.checkAll(e.S, "state-after-panic"); v != nil {
			return v
		}
		e.St.Probes["load-refused"]++
	}
	// worlds loaded from the same dump are independent worlds (C19): what a third one does to its entities must not
	// show in the other two, nor in the dump object
	l3, msg := mkWorld(false)
	if msg != "" {
		return e.viol("dump-diff", nil, "LoadEntities into a fresh world panicked: %s", msg)
	}
	func() {
		defer func() { recover() }()
		for i, me := range e.M.Alive {
			if i%2 == 0 {
				l3.W.RemoveEntity(me.H)
			}
		}
		for i := 0; i < 3; i++ {
			l3.W.NewEntity()
		}
	}()
	if !reflect.DeepEqual(norm0, normDump(d2)) {
		v := e.viol("cross-talk", nil, "operations on a world loaded from a dump changed the dump object itself")
		v.Also = append(v.Also, "dump-diff")
		return v
	}
	for _, ls := range []*Sys{l1, l2} {
		for _, me := range e.M.Alive {
			if !ls.W.Alive(me.H) {
				v := e.viol("cross-talk", nil, "removing %v in one world loaded from a dump made it dead in another world loaded from the same dump", me.H)
				v.Also = append(v.Also, "dump-diff")
				return v
			}
		}
	}
	e.St.Probes["sibling-worlds-isolated"]++
	var keep []*Shadow
	for _, sh := range e.Shadows {
		if sh.Kind != "load" {
			keep = append(keep, sh)
		}
	}
	e.Shadows = keep
	if v := e.loadHandleProbe(&d2); v != nil {
		return v
	}
	if v := e.agedLoadProbe(c, js); v != nil {
		return v
	}
	// EntityDump.Alive is documented as the alive IDs in query iteration order
	{
		q := w.Query(ecs.All())
		order := collect(&q)
		same := len(order) == len(d.Alive)
		for i := 0; same && i < len(order); i++ {
			same = order[i].ID() == d.Alive[i]
		}
		if !same {
			return e.viol("dump-diff", nil, "EntityDump.Alive is not the alive set in query iteration order: %v vs query order %v", d.Alive, order)
		}
	}
	for _, ls := range []*Sys{l1, l2} {
		if v := e.checkLoadAgainst(ls, &d); v != nil {
			return v
		}
	}
	if e.P.LoadTwin && !e.locked() {
		e.Shadows = append(e.Shadows, &Shadow{S: l1, Kind: "load"}, &Shadow{S: l2, Kind: "load"})
	}
	return nil
}

// loadHandleProbe (C02 after LoadEntities): a scratch world loaded from the dump answers Alive like the model for
// every ledger handle, and the handles it issues next are new: never issued before, never twice, never sharing
// an ID with an alive entity, and the number of alive entities stays creations minus removals.
func (e *Engine) loadHandleProbe(d *ecs.EntityDump) *Violation {
	pw := ecs.NewWorld(ecs.NewConfig().WithCapacityIncrement(1 + e.step%7))
	mk := func(format string, args ...interface{}) *Violation {
		v := &Violation{Class: "handle", Step: e.step, World: "load", Msg: "after LoadEntities: " + fmt.Sprintf(format, args...)}
		v.Also = append(v.Also, "dump-diff")
		return v
	}
	var msg string
	func() {
		defer func() {
			if r := recover(); r != nil {
				msg = fmt.Sprint(r)
			}
		}()
		pw.LoadEntities(d)
	}()
	if msg != "" {
		return nil // reported by the caller's own load
	}
	var v *Violation
	func() {
		defer func() {
			if r := recover(); r != nil {
				v = mk("probe panicked: %v", r)
			}
		}()
		for _, me := range e.M.Alive {
			if !pw.Alive(me.H) {
				v = mk("%v is alive in the source world but not in the loaded one", me.H)
				return
			}
		}
		for _, h := range e.M.Dead {
			if pw.Alive(h) {
				v = mk("%v was removed in the source world but is alive in the loaded one", h)
				return
			}
		}
		seen := map[ecs.Entity]bool{}
		n := int(d.Available)*2 + 3
		if n > 60 {
			n = 60
		}
		for i := 0; i < n; i++ {
			h := pw.NewEntity()
			if h.IsZero() || seen[h] || e.M.Issued[h] {
				v = mk("creation %d returned %v, a handle that was issued before", i, h)
				return
			}
			if other, ok := e.M.ByID[h.ID()]; ok {
				v = mk("creation %d returned %v, which shares its ID with alive entity %v", i, h, other.H)
				return
			}
			seen[h] = true
			if used := pw.Stats().Entities.Used; used != len(e.M.Alive)+i+1 {
				v = mk("%d entities alive after %d creations on top of %d", used, i+1, len(e.M.Alive))
				return
			}
		}
		q := pw.Query(ecs.All())
		if cnt := q.Count(); cnt != len(e.M.Alive)+n {
			v = mk("query finds %d entities, expected %d", cnt, len(e.M.Alive)+n)
		}
		q.Close()
	}()
	if v == nil {
		e.St.Probes["load-handle-probe"]++
	}
	return v
}

// checkPendingDump: the dump taken earlier must still be what it was, and loading it now reproduces the alive set
// of the moment it was taken.
func (e *Engine) checkPendingDump() *Violation {
	pd := e.pending
	if pd == nil {
		return nil
	}
	e.pending = nil
	mk := func(format string, args ...interface{}) *Violation {
		return &Violation{Class: "dump-diff", Step: e.step, World: "load", Msg: fmt.Sprintf(format, args...)}
	}
	var changed *Violation
	if !reflect.DeepEqual(pd.norm, normDump(pd.d)) {
		changed = mk("the dump taken at step %d changed while the source world was used afterwards: %+v became %+v", pd.step, pd.norm, normDump(pd.d))
	}
	also := func(v *Violation) *Violation {
		if changed != nil {
			// what the changed dump does to the alive answers of a world loaded from it (C02 after LoadEntities)
			v.Class = "handle"
			v.Also = append(v.Also, "dump-diff")
			v.Msg = changed.Msg + "; " + v.Msg
		}
		return v
	}
	lw := ecs.NewWorld(ecs.NewConfig().WithCapacityIncrement(1 + e.step%5))
	var msg string
	func() {
		defer func() {
			if r := recover(); r != nil {
				msg = fmt.Sprint(r)
			}
		}()
		lw.LoadEntities(&pd.d)
	}()
	if msg != "" {
		if changed != nil {
			return changed
		}
		return mk("delayed LoadEntities panicked: %s", msg)
	}
	var bad *Violation
	func() {
		defer func() {
			if r := recover(); r != nil && bad == nil {
				bad = also(mk("delayed load: probing Alive panicked: %v", r))
			}
		}()
		for _, h := range pd.alive {
			if !lw.Alive(h) {
				bad = also(mk("delayed load: %v was alive when the dump was taken but is not alive in the loaded world", h))
				return
			}
		}
		for _, h := range pd.dead {
			if lw.Alive(h) {
				bad = also(mk("delayed load: %v was dead when the dump was taken but is alive in the loaded world", h))
				return
			}
		}
		if used := lw.Stats().Entities.Used; used != len(pd.alive) {
			bad = also(mk("delayed load: %d entities, %d were alive when the dump was taken", used, len(pd.alive)))
		}
	}()
	if bad != nil {
		return bad
	}
	if changed != nil {
		return changed
	}
	if !reflect.DeepEqual(pd.norm, normDump(lw.DumpEntities())) {
		return mk("delayed load: second dump differs from the original")
	}
	e.St.Probes["delayed-load-checked"]++
	return nil
}

type dumpN struct {
	Entities  [][2]uint32
	Alive     []uint32
	Next      uint32
	Available uint32
}

func normDump(d ecs.EntityDump) dumpN {
	n := dumpN{Next: d.Next, Available: d.Available, Alive: append([]uint32{}, d.Alive...)}
	for _, h := range d.Entities {
		n.Entities = append(n.Entities, [2]uint32{h.ID(), h.Generation()})
	}
	return n
}

// checkLoadAgainst: right after loading, the loaded world's dump is identical and every ledger handle agrees.
func (e *Engine) checkLoadAgainst(ls *Sys, d *ecs.EntityDump) *Violation {
	d3 := ls.W.DumpEntities()
	if !reflect.DeepEqual(normDump(*d), normDump(d3)) {
		return &Violation{Class: "dump-diff", Step: e.step, World: "load", Msg: fmt.Sprintf("second dump differs: %+v vs %+v", normDump(*d), normDump(d3))}
	}
	return e.checkLoad(ls)
}

func (e *Engine) checkLoad(ls *Sys) *Violation {
	lw := ls.W
	mk := func(format string, args ...interface{}) *Violation {
		return &Violation{Class: "dump-diff", Step: e.step, World: "load", Msg: fmt.Sprintf(format, args...)}
	}
	for _, me := range e.M.Alive {
		if !lw.Alive(me.H) {
			return mk("%v is alive in the source world but not in the loaded one", me.H)
		}
	}
	for _, h := range e.M.Dead {
		if lw.Alive(h) {
			return mk("%v is dead in the source world but alive in the loaded one", h)
		}
	}
	// the unchecked accessors are documented to panic for a removed entity whose ID is not in use again
	if ls.hasProbe {
		n := 0
		for _, h := range e.M.Dead {
			if _, inUse := e.M.ByID[h.ID()]; inUse || n >= 6 {
				continue
			}
			n++
			panicked := func() (p bool) {
				defer func() { p = recover() != nil }()
				lw.HasUnchecked(h, ls.probeID)
				return
			}()
			if !panicked {
				v := mk("HasUnchecked(%v) in the loaded world did not panic although the entity is removed and its ID is not in use", h)
				v.Class = "no-panic"
				v.Also = append(v.Also, "dump-diff")
				return v
			}
		}
	}
	if used := lw.Stats().Entities.Used; used != len(e.M.Alive) {
		return mk("loaded world has %d entities, source %d", used, len(e.M.Alive))
	}
	if !e.locked() {
		a, b := normDump(e.S.W.DumpEntities()), normDump(lw.DumpEntities())
		as, bs := map[uint32]bool{}, map[uint32]bool{}
		for _, x := range a.Alive {
			as[x] = true
		}
		for _, x := range b.Alive {
			bs[x] = true
		}
		a.Alive, b.Alive = nil, nil
		if !reflect.DeepEqual(a, b) || !reflect.DeepEqual(as, bs) {
			return mk("dumps of source and loaded world differ: %+v vs %+v", a, b)
		}
		e.St.Probes["load-twin-dumps-compared"]++
	}
	return nil
}

// reformatJSON returns the same JSON value in another legal spelling (the text a user's pretty-printer or another
// program might have produced): compact, indented two ways, or padded with blanks.
func reformatJSON(js []byte, k int) []byte {
	var out bytes.Buffer
	switch k % 4 {
	case 1:
		if json.Indent(&out, js, "", "  ") == nil {
			return out.Bytes()
		}
	case 2:
		if json.Indent(&out, js, " ", "\t") == nil {
			return out.Bytes()
		}
	case 3:
		r := strings.NewReplacer("[", "[ ", ",", " ,\r\n ", "]", " ]", ":", " : ")
		return []byte(r.Replace(string(js)))
	}
	return js
}
