package sim

import (
	"github.com/mlange-42/arche/ecs"
)

// Plan is the swarm configuration of one run. It is drawn from the `plan` stream and stored in the trace.
type Plan struct {
	Profile        string     `json:"profile"`
	CapInc         int        `json:"capInc"`
	RelCapInc      int        `json:"relCapInc"`
	Types          []TypeSpec `json:"types"`
	ResTypes       int        `json:"resTypes"`
	ResLazy        int        `json:"resLazy,omitempty"` // which resource types are registered up front: 0 every second, 1 none, 2 every third
	EntityCap      int        `json:"entityCap"`
	MaxOpen        int        `json:"maxOpen"`
	FullEvery      int        `json:"fullEvery"`
	LockedYield    int        `json:"lockedYield"`              // percent of locked mutator turns handed to the iterator instead
	RelFilterPct   int        `json:"relFilterPct"`             // percent of new filters that are relation filters
	FillToLimit    bool       `json:"fillToLimit,omitempty"`    // register filler types up to MaskTotalBits and one beyond
	BatchAsSingles bool       `json:"batchAsSingles,omitempty"` // differential for C08: batch steps are executed as the loop of single-entity calls
	Steps          int        `json:"steps"`

	Weights map[string]int `json:"weights"`

	IllegalPermille int `json:"illegalPermille"` // chance that an operation is issued in an illegal variant
	DeadPermille    int `json:"deadPermille"`    // chance that a target is drawn from dead / recycled handles
	GCPermille      int `json:"gcPermille"`      // chance of a GC fault per step
	CachedPermille  int `json:"cachedPermille"`  // chance to go through the registered version of a filter

	Listener      string `json:"listener"`           // none | all | restricted | dispatch
	ListenerS     uint8  `json:"listenerS"`          // subscription mask for restricted
	ListenerC     []int  `json:"listenerC"`          // component restriction (type indices); empty = none
	ListenerChaos bool   `json:"listenerChaos"`      // listener attempts structural calls inside removal events
	Dispatch      []Sub  `json:"dispatch,omitempty"` // Dispatch members
	Wide          string `json:"wide,omitempty"`
	Fat           bool   `json:"fat,omitempty"`           // 18-30 live types, creations carry most of them (entities with > 16 components)
	HugeComp      bool   `json:"hugeComp,omitempty"`      // one component type of 4 KiB - 70 KiB
	ManySubs      bool   `json:"manySubs,omitempty"`      // Dispatch with more than 64 members
	ListenerSpawn bool   `json:"listenerSpawn,omitempty"` // the all-events listener creates entities inside notifications (legal: the world is unlocked)
	ListenerRes   bool   `json:"listenerRes,omitempty"`   // the listener object is also stored as a resource
	Lens          string `json:"lens,omitempty"`          // "C11": after a mismatch that is not an event violation the run goes on, judged only by "the world rebuilt from the delivered events equals the world"
	NoTargetDeath bool   `json:"noTargetDeath,omitempty"` // differential for C06: removals of entities that currently are relation targets are skipped
	TargetsOnly   bool   `json:"targetsOnly,omitempty"`   // no operation leaves an entity with a relation and the zero target (nodes without a zero-target table)
	FreshTwin     bool   `json:"freshTwin,omitempty"`     // C15: lock-step fresh world after each Reset
	LoadTwin      bool   `json:"loadTwin,omitempty"`      // C17: lock-step loaded world after dump/load
	EventReplica  bool   `json:"eventReplica,omitempty"`
}

// Sub is a restricted subscription (event types S, component restriction C).
type Sub struct {
	S      uint8 `json:"s"`
	C      []int `json:"c"`
	LateAt int   `json:"lateAt,omitempty"` // step at which a Dispatch member is added (0 = from the start)
}

var allOps = []string{"new", "newbatch", "rm", "xchg", "set", "setrel", "batch", "reset", "read",
	"qopen", "qnext", "qclose", "fnew", "freg", "funreg", "regtype", "res", "lockmax", "dump", "lockenum", "sweep", "addsub"}

func baseWeights() map[string]int {
	return map[string]int{
		"new": 14, "newbatch": 5, "rm": 8, "xchg": 16, "set": 8, "setrel": 8, "batch": 8, "reset": 1, "read": 3,
		"qopen": 5, "qnext": 14, "qclose": 5, "fnew": 4, "freg": 3, "funreg": 1, "regtype": 2, "res": 3,
		"lockmax": 0, "dump": 0, "lockenum": 0, "sweep": 0, "addsub": 0,
	}
}

var sizeChoices = []int{0, 1, 2, 3, 8, 12, 24, 40}

// borders (IDs) worth hitting: mask words and layout chunks.
func borderIDs() []int {
	b := []int{15, 16, 17, 31, 32, 47, 48, 63}
	if ecs.MaskTotalBits > 64 {
		b = append(b, 64, 65, 127, 128, 129, 191, 192, 193, 223, 224, 239, 240, 241, 254, 255)
	}
	return b
}

// GenPlan draws the plan of a run for a property profile.
func GenPlan(profile string, seed uint64, thorough bool) *Plan {
	r := NewRng(seed, StreamPlan)
	p := &Plan{Profile: profile}
	p.CapInc = []int{1, 2, 3, 5, 8, 128}[r.Intn(6)]
	if r.Intn(8) == 0 {
		p.CapInc = 1 + r.Intn(300)
	}
	p.RelCapInc = []int{0, 1, 4}[r.Intn(3)]
	p.EntityCap = 8 + r.Intn(60)
	if r.Intn(6) == 0 {
		p.EntityCap = 60 + r.Intn(140)
	}
	p.MaxOpen = 1 + r.Intn(6)
	p.FullEvery = []int{1, 1, 2, 4}[r.Intn(4)]
	p.LockedYield = []int{50, 75, 90}[r.Intn(3)]
	p.RelFilterPct = []int{15, 25, 45}[r.Intn(3)]
	p.Steps = 40 + r.Intn(110)
	if thorough && r.Intn(4) == 0 {
		p.Steps = 150 + r.Intn(450)
	}
	p.Weights = baseWeights()
	p.IllegalPermille = []int{0, 30, 80, 150}[r.Intn(4)]
	p.DeadPermille = []int{0, 50, 150}[r.Intn(3)]
	p.CachedPermille = []int{0, 300, 600, 900}[r.Intn(4)]
	p.GCPermille = 0
	p.ResTypes = 1 + r.Intn(6)

	// component types
	nLive := 3 + r.Intn(10)
	if r.Intn(16) == 0 && profile != "C14" {
		p.Fat = true
		nLive = 18 + r.Intn(13)
	}
	maxID := ecs.MaskTotalBits - 1
	nRel := 1 + r.Intn(3)
	usedArr := map[int]bool{}
	spread := r.Intn(3) // 0: dense from 0, 1: some pushed to borders, 2: many fillers
	total := 0
	for i := 0; i < nLive; i++ {
		t := TypeSpec{}
		k := r.Intn(100)
		switch {
		case i < nRel:
			t.Kind = "rel"
			t.Size = sizeChoices[r.Intn(len(sizeChoices))]
		case k < 50:
			t.Kind = "bytes"
			t.Size = sizeChoices[r.Intn(len(sizeChoices))]
		case k < 70:
			t.Kind = "aligned"
			t.Align = []int{2, 4, 8}[r.Intn(3)]
			t.Size = 1 + r.Intn(4)
		case k < 80:
			t.Kind = "padded"
			t.Size = 1 + r.Intn(9)
		case k < 86:
			t.Kind = "rellater"
			t.Size = 1 + r.Intn(8)
		case k < 89:
			t.Kind = "relnamed"
			t.Size = 1 + r.Intn(8)
		case k < 91:
			t.Kind = "relptr"
			t.Size = 1 + r.Intn(8)
		default:
			t.Kind = "array"
			for {
				t.Size = r.Intn(64)
				if !usedArr[t.Size] {
					usedArr[t.Size] = true
					break
				}
			}
		}
		if spread > 0 && r.Intn(3) == 0 {
			// push this type's ID to (or near) a border
			b := borderIDs()
			want := b[r.Intn(len(b))]
			if want > total && want <= maxID-(nLive-i) {
				t.Fillers = want - total
			}
		} else if spread == 2 && r.Intn(2) == 0 {
			f := r.Intn(20)
			if total+f <= maxID-(nLive-i) {
				t.Fillers = f
			}
		}
		t.Late = r.Intn(5) == 0
		total += t.Fillers + 1
		p.Types = append(p.Types, t)
	}
	// shuffle so that relation types are not always first (and relation type may or may not get ID 0)
	for i := len(p.Types) - 1; i > 0; i-- {
		j := r.Intn(i + 1)
		// fillers stay with positions to keep the total within range
		p.Types[i].Kind, p.Types[j].Kind = p.Types[j].Kind, p.Types[i].Kind
		p.Types[i].Size, p.Types[j].Size = p.Types[j].Size, p.Types[i].Size
		p.Types[i].Align, p.Types[j].Align = p.Types[j].Align, p.Types[i].Align
	}
	if r.Intn(4) == 0 {
		p.Types[0].Fillers = 0 // make sure ID 0 is a live type in a good share of runs
	}
	if r.Intn(4) == 0 {
		// the last live type sits on the very last ID of the mask (63 in the tiny build, 255 otherwise)
		used := 0
		for _, t := range p.Types {
			used += t.Fillers + 1
		}
		if used <= maxID {
			p.Types[len(p.Types)-1].Fillers += maxID + 1 - used
		}
	}

	switch r.Intn(4) {
	case 0:
		p.Listener = "none"
	default:
		p.Listener = "all"
	}
	p.ListenerChaos = r.Intn(2) == 0
	p.EventReplica = true

	if r.Intn(10) == 0 {
		p.Wide = []string{"nodes", "tables", "entities", "filters"}[r.Intn(4)]
	}
	if ((profile == "C03" || profile == "C06" || profile == "C15") && r.Intn(7) == 0) || (profile == "C13" && r.Intn(6) == 0) ||
		(profile == "C07" && r.Intn(6) == 0) ||
		((profile == "C05" || profile == "C08" || profile == "C11") && r.Intn(12) == 0) {
		p.Wide = "tables" // more than one page (32) of target tables in one relation node
	}
	// big worlds: the library's default capacity increment, hundreds to thousands of entities, batch creations of
	// hundreds, one multi-kilobyte component. Costly per run, so only a small share of the plans.
	bigShare := map[bool]int{false: 24, true: 10}[thorough]
	if profile == "C02" || profile == "C17" { // entity pool, batch creation and removal are these properties' own subject
		bigShare = map[bool]int{false: 8, true: 5}[thorough]
	}
	if p.Wide == "" && profile != "C14" && profile != "C10" && r.Intn(bigShare) == 0 {
		p.Wide = "big"
		k := 1 + r.Intn(len(p.Types)-1)
		for i := range p.Types { // one component of 64 bytes or more, a plain one if there is any
			if kk := (k + i) % len(p.Types); p.Types[kk].Kind == "bytes" {
				k = kk
				break
			}
		}
		if p.Types[k].Kind == "bytes" || p.Types[k].Kind == "rel" {
			p.Types[k].Size = []int{64, 100, 200, 600}[r.Intn(4)]
		}
	}
	if p.Wide == "" && profile != "C14" && r.Intn(20) == 0 {
		// one very large component (beyond any block size an implementation might clear or copy in); small world
		for k := range p.Types {
			if kd := p.Types[k].Kind; (kd == "bytes" || kd == "rel") && r.Intn(2) == 0 {
				p.Types[k].Size = []int{4097, 9000, 16385, 20000, 24000, 40000, 70000}[r.Intn(7)]
				p.HugeComp = true
				break
			}
		}
	}
	if p.Wide == "tables" && len(p.Types) > 2 {
		// very few component sets, so that one relation node really collects more than a page (32) of target tables
		p.Types = p.Types[:2]
		p.Types[0].Kind, p.Types[0].Fillers, p.Types[0].Late = "rel", 0, false
		if p.Types[1].Kind == "rel" {
			p.Types[1].Kind = "bytes"
		}
		p.Types[1].Late = false
		p.DeadPermille = 0
	}
	tuneProfile(p, r, thorough)
	if (p.Wide == "tables" && r.Intn(2) == 0) || r.Intn(12) == 0 {
		p.TargetsOnly = true
		p.DeadPermille = 0
	}
	if p.Wide != "" {
		switch p.Wide {
		case "entities":
			p.EntityCap = 150 + r.Intn(100)
			p.Weights["new"] = 30
			p.Weights["newbatch"] = 15
		case "filters":
			p.Weights["fnew"] = 30
			p.Weights["freg"] = 30
		case "tables":
			p.Weights["setrel"] = 50
			p.Weights["new"] = 40
			p.Weights["newbatch"] = 12
			p.Weights["rm"] = 3
			p.Weights["reset"] = 0
			if profile == "C15" {
				p.Weights["reset"] = 1
			}
			p.Weights["xchg"] = 6
			p.EntityCap = 160 + r.Intn(60)
			p.Steps += 450
			if r.Intn(3) == 0 { // beyond 128 target tables in one node
				p.EntityCap = 320 + r.Intn(120)
				p.Steps += 350
				p.FullEvery = 8
				p.Weights["reset"] = 0 // C15 steers its resets once a node is beyond four pages of tables
				p.Weights["rm"] = 12   // targets keep dying, so that the number of tables moves up and down around 128
			} else if (profile == "C13" || thorough) && r.Intn(5) == 0 {
				// beyond 1024 (a page of pages) tables matching one filter: thousands of entities, each its own target
				p.EntityCap = 2600 + r.Intn(500)
				p.Steps = 4200 + r.Intn(600)
				p.FullEvery = 150
				p.TargetsOnly = false
				for k := range p.Weights {
					if p.Weights[k] > 2 {
						p.Weights[k] = 2
					}
				}
				p.Weights["new"], p.Weights["setrel"], p.Weights["newbatch"], p.Weights["batch"] = 45, 45, 4, 3
				p.Weights["qopen"], p.Weights["qnext"], p.Weights["qclose"] = 1, 3, 1
				p.Weights["reset"], p.Weights["lockmax"], p.Weights["lockenum"], p.Weights["sweep"], p.Weights["dump"] = 0, 0, 0, 0, 0
				p.MaxOpen = 1
			}
		case "nodes":
			p.Weights["xchg"] = 40
			p.Steps += 100
		case "big":
			p.CapInc = []int{128, 128, 100, 256, 64}[r.Intn(5)]
			p.EntityCap = 300 + r.Intn(900)
			if thorough && r.Intn(3) == 0 {
				p.EntityCap = 1500 + r.Intn(2500)
			}

			p.Weights["new"] += 10
			p.Weights["newbatch"] = 25
			p.Weights["batch"] += 6
			p.Weights["reset"] = 0
			if p.Profile == "C15" || p.Profile == "C02" || p.Profile == "C06" || p.Profile == "C17" {
				p.Weights["reset"] = 1
			}
			p.FullEvery = 6
			p.Steps = 150 + r.Intn(150)
			if r.Intn(map[bool]int{false: 6, true: 5}[thorough]) == 0 { // more than 4096 rows in one table
				p.EntityCap = 5000 + r.Intn(4000)
				p.FullEvery = 12
				p.Weights["reset"] = 2 // huge tables are emptied as a whole and filled again
				p.Weights["batch"] += 6
				if r.Intn(3) == 0 { // more than 16384 rows in one table
					p.EntityCap = 17000 + r.Intn(5000)
					p.FullEvery = 25
					p.Steps = 80 + r.Intn(60)
					p.Weights["newbatch"], p.Weights["reset"], p.Weights["new"] = 30, 6, 12
					p.CapInc = []int{128, 128, 256, 64}[r.Intn(4)]
				}
			}
		}
	}
	if p.Listener != "none" && !p.FillToLimit && r.Intn(6) == 0 {
		p.ListenerRes = true
		if p.ResTypes < 6 {
			p.ResTypes = 6
		}
	}
	if p.Listener == "all" && profile != "C12" && !p.FreshTwin && !p.LoadTwin {
		p.ListenerSpawn = r.Intn(3) == 0
	}
	if p.HugeComp {
		if p.EntityCap > 50 {
			p.EntityCap = 10 + r.Intn(40)
		}
		if p.CapInc > 16 {
			p.CapInc = 1 + r.Intn(8)
		}
	}
	return p
}

// tuneProfile biases the swarm towards the behaviour a property depends on.
func tuneProfile(p *Plan, r *Rng, thorough bool) {
	w := p.Weights
	switch p.Profile {
	case "C01":
		if r.Intn(2) == 0 {
			p.CapInc = 1 + r.Intn(3)
		}
		w["set"] = 14
	case "C02":
		p.EntityCap = 6 + r.Intn(30)
		w["new"], w["rm"], w["newbatch"], w["batch"] = 18, 16, 10, 10
		w["reset"] = 2
		w["dump"] = 2
		p.LoadTwin = true
	case "C03":
		w["qopen"], w["qnext"], w["qclose"] = 12, 30, 6
		w["fnew"], w["freg"] = 8, 6
		w["batch"], w["setrel"], w["rm"] = 12, 10, 10
		p.RelFilterPct = []int{25, 45, 60}[r.Intn(3)]
		p.CachedPermille = []int{300, 600, 900}[r.Intn(3)]
		p.IllegalPermille = []int{0, 30}[r.Intn(2)]
	case "C05":
		w["setrel"], w["xchg"], w["new"] = 16, 20, 16
		p.DeadPermille = []int{50, 150, 300}[r.Intn(3)]
		w["reset"] = []int{1, 1, 5}[r.Intn(3)] // targets, builders and registered filters that live across resets
	case "C06":
		w["setrel"], w["rm"], w["batch"], w["new"] = 16, 18, 12, 18
		if p.Wide != "tables" {
			p.EntityCap = 6 + r.Intn(24)
		}
		w["reset"] = 2
		w["fnew"], w["freg"] = 6, 6
		p.RelFilterPct = []int{30, 50, 70}[r.Intn(3)]
	case "C07":
		w["fnew"], w["freg"], w["funreg"] = 10, 12, 3
		w["batch"], w["rm"], w["setrel"] = 14, 12, 12
		w["reset"] = 3
		p.CachedPermille = []int{600, 900}[r.Intn(2)]
		p.RelFilterPct = []int{30, 50, 70}[r.Intn(3)]
		p.EntityCap = 6 + r.Intn(30)
	case "C08":
		w["batch"], w["newbatch"] = 24, 12
		w["fnew"] = 8
	case "C09":
		w["qopen"], w["qnext"], w["qclose"] = 10, 10, 8
		w["lockmax"] = 1
		w["lockenum"] = 3
		w["sweep"] = 2
		p.IllegalPermille = 0
		p.LockedYield = []int{0, 30, 60}[r.Intn(3)]
		p.ListenerChaos = true
		switch r.Intn(5) {
		case 0:
		case 1, 2:
			// a listener that is not interested in everything: the removal-notification lock window must not depend on it
			p.Listener = "restricted"
			p.ListenerS = uint8(1 + r.Intn(63))
			p.ListenerC = nil
			if r.Intn(2) == 0 {
				for i := 0; i < 1+r.Intn(2); i++ {
					p.ListenerC = append(p.ListenerC, r.Intn(len(p.Types)))
				}
			}
			for i := range p.Types {
				p.Types[i].Late = false
			}
		default:
			p.Listener = "all"
		}
		p.EntityCap = 6 + r.Intn(20)
	case "C10":
		p.IllegalPermille = []int{200, 350, 500}[r.Intn(3)]
		p.FillToLimit = r.Intn(6) == 0
		w["regtype"] = 4
		p.DeadPermille = []int{150, 300}[r.Intn(2)]
		w["read"] = 8
		w["res"] = 5
		w["qopen"], w["qnext"], w["qclose"] = 5, 8, 8
		w["dump"] = 1 // removed handles offered to worlds loaded from a dump
		p.FullEvery = 1
	case "C11":
		p.Listener = "all"
		w["batch"], w["newbatch"], w["setrel"] = 14, 8, 12
	case "C12":
		p.Listener = "all"
		w["batch"], w["newbatch"], w["setrel"], w["addsub"] = 12, 8, 12, 2
		p.IllegalPermille = 0
		for i := range p.Types {
			p.Types[i].Late = false
		}
		drawC := func() []int {
			if r.Intn(5) < 2 {
				return nil
			}
			var c []int
			n := 1 + r.Intn(3)
			for i := 0; i < n; i++ {
				c = append(c, r.Intn(len(p.Types)))
			}
			return c
		}
		p.ListenerS = uint8(r.Intn(64))
		p.ListenerC = drawC()
		nd := 1 + r.Intn(5)
		if r.Intn(12) == 0 {
			nd = 60 + r.Intn(30) // more members than one machine word has bits
			p.ManySubs = true
		}
		for i := 0; i < nd; i++ {
			sub := Sub{S: uint8(r.Intn(64)), C: drawC()}
			if r.Intn(4) == 0 {
				sub.S = 63
			}
			if r.Intn(3) == 0 {
				sub.LateAt = 1
			}
			p.Dispatch = append(p.Dispatch, sub)
		}
	case "C13":
		p.FullEvery = []int{1, 4, 16, 64}[r.Intn(4)] // World.Stats() first sees a node at very different ages
		w["setrel"], w["rm"], w["new"], w["batch"] = 18, 16, 18, 12
		w["fnew"], w["freg"], w["funreg"] = 8, 10, 2
		w["reset"] = 3
		p.Listener = "all"
		p.CachedPermille = []int{300, 600, 900}[r.Intn(3)]
		p.IllegalPermille = []int{0, 30}[r.Intn(2)]
		if p.Wide != "tables" {
			p.EntityCap = 10 + r.Intn(40)
		}
	case "C19":
		p.ListenerChaos = false
		w["reset"] = 2
		w["regtype"] = 4
		w["dump"] = 2
	case "C14":
		// pointer-carrying components, GC faults at boundaries and inside moves
		p.GCPermille = []int{100, 250, 400}[r.Intn(3)]
		np := 1 + r.Intn(5)
		for i := 0; i < np && i < len(p.Types); i++ {
			p.Types[len(p.Types)-1-i] = TypeSpec{Kind: "ptr", Late: r.Intn(5) == 0}
		}
		if r.Intn(2) == 0 {
			p.Types[0] = TypeSpec{Kind: "ptrrel"}
		}
		w["set"], w["xchg"], w["rm"], w["batch"], w["newbatch"], w["reset"] = 22, 20, 12, 10, 6, 2
		w["setrel"] = 10
		if r.Intn(2) == 0 {
			p.CapInc = 1 + r.Intn(3)
		}
		p.EntityCap = 6 + r.Intn(30)
		p.Steps = 40 + r.Intn(80)
		p.Wide = ""
	case "C15":
		w["reset"] = 5
		p.FreshTwin = true
		w["fnew"], w["freg"] = 8, 8
		w["setrel"], w["rm"] = 12, 12
		p.RelFilterPct = []int{30, 50, 70}[r.Intn(3)]
		if p.Wide != "tables" {
			p.EntityCap = 5 + r.Intn(20)
		}
		if r.Intn(8) == 0 {
			p.ResTypes = ecs.MaskTotalBits
			w["res"] = 8
		}
		p.CachedPermille = []int{300, 900}[r.Intn(2)]
	case "C16":
		w["regtype"] = 10
		p.FillToLimit = r.Intn(3) == 0
		for i := range p.Types {
			p.Types[i].Late = r.Intn(2) == 0
		}
	case "C17":
		w["dump"] = 5
		p.LoadTwin = true
		w["new"], w["rm"], w["newbatch"] = 18, 16, 10
		p.EntityCap = 6 + r.Intn(40)
	case "C20":
		w["res"] = 30
		p.ResTypes = 2 + r.Intn(12)
		switch r.Intn(8) {
		case 0, 1:
			p.ResTypes = ecs.MaskTotalBits
		case 2, 3, 4:
			// enough types for the registry and the storage to grow while resources are present
			p.ResTypes = 14 + r.Intn(60)
			if p.ResTypes > ecs.MaskTotalBits {
				p.ResTypes = ecs.MaskTotalBits
			}
		}
		p.ResLazy = r.Intn(3)
		w["reset"] = 3
		w["dump"] = 2 // LoadEntities into a world that holds resources
	}
}
