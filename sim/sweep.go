package sim

import (
	"fmt"
	"reflect"
	"sort"

	"github.com/mlange-42/arche/ecs"
)

// Reflective sweep (C09): every exported method of *World, *Batch, *Relations and *Builder found through reflect —
// classified or not — is invoked on a locked world with arguments synthesised for its parameter types. Methods
// classified as structural must panic; whatever any other method does, the structural part of the world (alive
// set, component sets, values, targets, registry, World.Stats) must be unchanged afterwards. A method the table
// does not know is therefore still checked, and is named in the evidence as unclassified.

// sweepClass: S = structural (must panic under lock), R = read-only / allowed under lock, X = skipped (would
// disturb the harness itself, e.g. replacing the listener).
var sweepClass = map[string]byte{
	"World.NewEntity": 'S', "World.NewEntityWith": 'S', "World.RemoveEntity": 'S', "World.Add": 'S', "World.Remove": 'S',
	"World.Exchange": 'S', "World.Assign": 'S', "World.Reset": 'S', "World.LoadEntities": 'S',
	"World.Set": 'X', "World.SetListener": 'X', "World.Query": 'X',
	"World.Alive": 'R', "World.Get": 'R', "World.GetUnchecked": 'R', "World.Has": 'R', "World.HasUnchecked": 'R', "World.Mask": 'R',
	"World.Ids": 'R', "World.IsLocked": 'R', "World.Stats": 'R', "World.DumpEntities": 'R', "World.Resources": 'R', "World.Cache": 'R',
	"World.Batch": 'R', "World.Relations": 'R',
	"World.VerifShape": 'R', "World.VerifCheckInvariants": 'R', "World.VerifStats": 'R',
	"Batch.Add": 'S', "Batch.AddQ": 'S', "Batch.Remove": 'S', "Batch.RemoveQ": 'S', "Batch.Exchange": 'S', "Batch.ExchangeQ": 'S',
	"Batch.SetRelation": 'S', "Batch.SetRelationQ": 'S', "Batch.RemoveEntities": 'S',
	"Relations.Get": 'R', "Relations.GetUnchecked": 'R', "Relations.Set": 'S', "Relations.Exchange": 'S',
	"Relations.SetBatch": 'S', "Relations.SetBatchQ": 'S', "Relations.ExchangeBatch": 'S', "Relations.ExchangeBatchQ": 'S',
	"Builder.New": 'S', "Builder.NewBatch": 'S', "Builder.NewBatchQ": 'S', "Builder.Add": 'S', "Builder.WithRelation": 'R',
}

func (e *Engine) opSweep(c *cursor) *Violation {
	if !e.locked() {
		// take a lock first, then sweep on the next turn
		return e.opQOpen(c)
	}
	s := e.S
	w := s.W
	reg := e.regTypes()
	if len(reg) == 0 || len(e.M.Alive) == 0 {
		e.St.Skipped++
		return nil
	}
	me := e.pickAlive(c)
	// a component the entity lacks / has, a relation type, for legal-if-unlocked arguments
	var lacks, has []int
	for _, t := range reg {
		if me.Has(t) {
			has = append(has, t)
		} else if e.M.RelMask&(1<<uint(t)) == 0 {
			lacks = append(lacks, t)
		}
	}
	rels, _ := e.relTypes()
	entityT := reflect.TypeOf(ecs.Entity{})
	idT := reflect.TypeOf(ecs.ID{})
	filterT := reflect.TypeOf((*ecs.Filter)(nil)).Elem()
	compT := reflect.TypeOf(ecs.Component{})
	dumpT := reflect.TypeOf(&ecs.EntityDump{})
	dump := w.DumpEntities()
	anyID := s.IDs[reg[0]]
	if len(lacks) > 0 {
		anyID = s.IDs[lacks[0]]
	}
	relID := anyID
	if len(rels) > 0 {
		relID = s.IDs[rels[0]]
	}
	synth := func(recv string, name string, m reflect.Type, i int, last bool) ([]reflect.Value, bool) {
		pt := m.In(i)
		if last && m.IsVariadic() {
			et := pt.Elem()
			switch et {
			case idT:
				if recv == "World" && name == "Remove" && len(has) > 0 {
					return []reflect.Value{reflect.ValueOf(s.IDs[has[0]])}, true
				}
				if len(lacks) > 0 {
					return []reflect.Value{reflect.ValueOf(anyID)}, true
				}
				return nil, true
			case compT:
				if len(lacks) > 0 {
					return []reflect.Value{reflect.ValueOf(ecs.Component{ID: anyID, Comp: s.makeValue(lacks[0], nil)})}, true
				}
				return nil, true
			case entityT:
				return nil, true
			}
			return nil, false
		}
		switch pt {
		case entityT:
			return []reflect.Value{reflect.ValueOf(me.H)}, true
		case idT:
			if recv == "Relations" || name == "SetRelation" || name == "SetRelationQ" || name == "WithRelation" {
				return []reflect.Value{reflect.ValueOf(relID)}, true
			}
			return []reflect.Value{reflect.ValueOf(anyID)}, true
		case reflect.TypeOf([]ecs.ID{}):
			if len(lacks) > 0 && name != "Remove" {
				return []reflect.Value{reflect.ValueOf([]ecs.ID{anyID})}, true
			}
			return []reflect.Value{reflect.ValueOf([]ecs.ID(nil))}, true
		case filterT:
			return []reflect.Value{reflect.ValueOf(ecs.All())}, true
		case reflect.TypeOf(0):
			return []reflect.Value{reflect.ValueOf(1)}, true
		case reflect.TypeOf(false):
			return []reflect.Value{reflect.ValueOf(false)}, true
		case dumpT:
			return []reflect.Value{reflect.ValueOf(&dump)}, true
		}
		return nil, false
	}
	recvs := []struct {
		name string
		v    reflect.Value
	}{
		{"World", reflect.ValueOf(w)},
		{"Batch", reflect.ValueOf(w.Batch())},
		{"Relations", reflect.ValueOf(w.Relations())},
		{"Builder", reflect.ValueOf(ecs.NewBuilder(w, anyID))},
	}
	queryT := reflect.TypeOf(ecs.Query{})
	var names []string
	for _, r := range recvs {
		t := r.v.Type()
		for i := 0; i < t.NumMethod(); i++ {
			names = append(names, r.name+"."+t.Method(i).Name)
		}
	}
	sort.Strings(names)
	e.St.Probes["max:sweep-methods-enumerated"] = len(names)
	before := e.statsDigest()
	for _, r := range recvs {
		t := r.v.Type()
		for i := 0; i < t.NumMethod(); i++ {
			m := t.Method(i)
			full := r.name + "." + m.Name
			class, known := sweepClass[full]
			if !known {
				e.St.Probes["sweep-unclassified:"+full]++
			}
			if class == 'X' || class == 'R' {
				continue
			}
			mt := m.Type // includes receiver at 0
			args := []reflect.Value{r.v}
			ok := true
			for k := 1; k < mt.NumIn(); k++ {
				a, can := synth(r.name, m.Name, mt, k, k == mt.NumIn()-1)
				if !can {
					ok = false
					break
				}
				args = append(args, a...)
			}
			if !ok {
				e.St.Probes["sweep-unsynthesisable:"+full]++
				continue
			}
			panicked := false
			var outs []reflect.Value
			func() {
				defer func() {
					if x := recover(); x != nil {
						panicked = true
					}
				}()
				outs = m.Func.Call(args)
			}()
			// a method that returned a query took a lock: release it
			for _, o := range outs {
				if o.Type() == queryT {
					q := o.Interface().(ecs.Query)
					func() {
						defer func() { recover() }()
						q.Close()
					}()
				}
			}
			e.St.Probes["sweep-calls"]++
			e.St.Faults["locked-call"]++
			if class == 'S' && !panicked {
				return e.viol("lock-not-enforced", nil, "reflective sweep: %s did not panic on a locked world", full)
			}
			if after := e.statsDigest(); after != before {
				return e.viol("state-after-locked-call", nil, "reflective sweep: %s on a locked world changed World.Stats()", full)
			}
			if v := e.checkAll(s, "state-after-locked-call"); v != nil {
				v.Msg = fmt.Sprintf("reflective sweep: after %s on a locked world: %s", full, v.Msg)
				return v
			}
			if w.IsLocked() != e.locked() {
				return e.viol("lock-ledger", nil, "reflective sweep: after %s IsLocked()=%v with %d queries open", full, w.IsLocked(), len(e.Open))
			}
		}
	}
	e.St.Probes["sweep-done"]++
	return nil
}
