//go:build go1.24

package sim

import "weak"

// weakLedger tracks the heap objects referenced by pointer-carrying components through weak pointers
// (cleared synchronously by one full runtime.GC once the object is unreachable).
type weakLedger struct {
	m map[uint64][]weak.Pointer[Canary]
}

func newWeakLedger() *weakLedger    { return &weakLedger{m: map[uint64][]weak.Pointer[Canary]{}} }
func (l *weakLedger) resetAll()     {}
func (l *weakLedger) enabled() bool { return true }
func (l *weakLedger) track(c uint64, p *Canary) {
	l.m[c] = append(l.m[c], weak.Make(p))
}
func (l *weakLedger) alive(c uint64) (known, alive bool) {
	ps, ok := l.m[c]
	if !ok {
		return false, false
	}
	for _, p := range ps {
		if p.Value() != nil {
			return true, true
		}
	}
	return true, false
}
func (l *weakLedger) forget(c uint64) { delete(l.m, c) }
func (l *weakLedger) ids() []uint64 {
	out := make([]uint64, 0, len(l.m))
	for c := range l.m {
		out = append(out, c)
	}
	return out
}
