package sim

import (
	"github.com/mlange-42/arche/ecs"
	"reflect"
)

// ---------- argument pickers ----------

func (e *Engine) pickAlive(c *cursor) *MEnt {
	k := c.n(1 << 30)
	if len(e.M.Alive) == 0 {
		return nil
	}
	return e.M.Alive[k%len(e.M.Alive)]
}

// pickDead returns a removed handle; recycled=true prefers one whose ID is in use again.
func (e *Engine) pickDead(c *cursor, recycled bool) (ecs.Entity, bool) {
	k := c.n(1 << 30)
	n := len(e.M.Dead)
	if n == 0 {
		return ecs.Entity{}, false
	}
	if recycled {
		for i := 0; i < n; i++ {
			h := e.M.Dead[(k+i)%n]
			if _, used := e.M.ByID[h.ID()]; used {
				e.St.Probes["recycled-id-offered"]++
				return h, true
			}
		}
	}
	return e.M.Dead[k%n], true
}

// pickTarget draws a relation target: alive / zero / self / dead / recycled.
func (e *Engine) pickTarget(c *cursor, self *MEnt, allowDead bool) ecs.Entity {
	k := c.n(1000)
	sub := c.n(100)
	if allowDead && k < e.P.DeadPermille {
		if h, ok := e.pickDead(c, sub < 50); ok {
			return h
		}
	}
	switch {
	case sub < 12 && !e.P.TargetsOnly:
		return ecs.Entity{}
	case sub < 22 && self != nil:
		return self.H
	default:
		// few distinct targets most of the time, so that tables fill up and die together
		if len(e.M.Alive) == 0 {
			return ecs.Entity{}
		}
		k2 := c.n(1 << 30)
		if sub < 70 && e.P.Wide != "tables" {
			return e.M.Alive[k2%minInt(len(e.M.Alive), 3)].H
		}
		return e.M.Alive[k2%len(e.M.Alive)].H
	}
}

func minInt(a, b int) int {
	if a < b {
		return a
	}
	return b
}

func (e *Engine) illegalIntent(c *cursor) bool { return c.permille(e.P.IllegalPermille) }

// subset draws up to max distinct elements of from.
func subset(c *cursor, from []int, max int) []int {
	if len(from) == 0 {
		c.n(1)
		return nil
	}
	n := c.n(max + 1)
	var out []int
	var seen uint32
	for i := 0; i < n; i++ {
		t := from[c.n(len(from))]
		if seen&(1<<uint(t)) == 0 {
			seen |= 1 << uint(t)
			out = append(out, t)
		}
	}
	return out
}

// limitRelations drops relation types from add so that the result (base + add) carries at most one.
func (e *Engine) limitRelations(base uint32, add []int) []int {
	has := popcount(base&e.M.RelMask) > 0
	var out []int
	for _, t := range add {
		if e.M.RelMask&(1<<uint(t)) != 0 {
			if has {
				continue
			}
			has = true
		}
		out = append(out, t)
	}
	return out
}

func (e *Engine) genVal(t int) []byte {
	e.valSeq++
	if e.P.Types[t].IsPtr() {
		e.canarySeq++
		return u64LE(e.canarySeq)
	}
	n := e.M.Sizes[t]
	b := make([]byte, n)
	sm := SplitMix{s: e.valSeq*0x9E3779B97F4A7C15 + uint64(t)}
	for i := 0; i < n; i += 8 {
		x := sm.Next() | 1 // never all-zero, so that a lost write is visible
		for j := 0; j < 8 && i+j < n; j++ {
			b[i+j] = byte(x >> (8 * uint(j)))
		}
	}
	if e.P.Types[t].Kind == "relptr" {
		for i := 0; i < 8 && i < n; i++ {
			b[i] = 0 // the embedded pointer stays nil
		}
	}
	return b
}

func (e *Engine) genVals(ts []int) [][]byte {
	out := make([][]byte, len(ts))
	for i, t := range ts {
		out[i] = e.genVal(t)
	}
	return out
}

// cloneVals: now and then the values of a component-value call are not fresh objects but the pointers World.Get returns
// for another entity ("clone a template"), preferably an entity that sits in the table the call's entity ends up in, so
// that the source is read while its own table is being grown or re-arranged.
func (e *Engine) cloneVals(c *cursor, op *COp, dest uint32) {
	if len(op.Add) == 0 || len(op.Vals) != len(op.Add) || op.Illegal != "" || c.n(5) != 1 || len(e.M.Alive) == 0 {
		return
	}
	off := c.n(len(e.M.Alive))
	op.CloneOf = make([]ecs.Entity, len(op.Add))
	for i, t := range op.Add {
		var any, same *MEnt
		for k := range e.M.Alive {
			me := e.M.Alive[(k+off)%len(e.M.Alive)]
			if !me.Has(t) || me.H == op.Ent {
				continue
			}
			if any == nil {
				any = me
			}
			if me.Cs == dest {
				same = me
				break
			}
		}
		if same != nil {
			any = same
		}
		if any == nil {
			continue
		}
		op.CloneOf[i] = any.H
		op.Vals[i] = append([]byte{}, any.Val[t]...)
		e.St.Probes["value-cloned-from-get-pointer"]++
		if same != nil {
			e.St.Probes["value-cloned-from-entity-in-destination-table"]++
		}
	}
}

func (e *Engine) relTypes() (rels, plains []int) {
	for _, t := range e.regTypes() {
		if e.M.RelMask&(1<<uint(t)) != 0 {
			rels = append(rels, t)
		} else {
			plains = append(plains, t)
		}
	}
	return
}

// ---------- creation ----------

func (e *Engine) creationLegal(op *COp) string {
	if hasDup(op.Add) {
		return "dup-add"
	}
	cs := setOf(op.Add)
	if popcount(cs&e.M.RelMask) > 1 {
		return "second-relation"
	}
	if op.HasTgt {
		if op.Rel < 0 {
			return "target-without-relation"
		}
		if cs&(1<<uint(op.Rel)) == 0 {
			return "relation-missing"
		}
		if e.M.RelMask&(1<<uint(op.Rel)) == 0 {
			return "not-a-relation"
		}
		if !e.M.TargetOK(op.Target) {
			return "dead-target"
		}
	}
	return ""
}

func (e *Engine) genCreation(c *cursor, op *COp) {
	reg := e.regTypes()
	add := subset(c, reg, 4)
	if e.P.Fat && c.n(3) > 0 {
		// most of the registered types at once: entities with more components than one layout chunk holds
		m := c.raw() | c.raw()
		add = add[:0]
		for _, t := range reg {
			if m&(1<<uint(t)) != 0 {
				add = append(add, t)
			}
		}
	}
	if e.P.EntityCap >= 17000 && len(reg) > 0 {
		// very large tables: few component sets (so that the same tables fill, empty and fill again), all with the
		// widest plain component, which is never the only one
		wide := reg[0]
		for _, t := range reg {
			if e.P.Types[t].Kind == "bytes" && e.P.Types[t].Size > e.P.Types[wide].Size {
				wide = t
			}
		}
		add = []int{wide}
		for i := 1; i <= 2 && i < len(reg); i++ {
			if o := reg[(wide+i)%len(reg)]; o != wide && c.n(3) > 0 && e.M.RelMask&(1<<uint(o)) == 0 {
				add = append(add, o)
			}
		}
	}
	add = e.limitRelations(0, add)
	op.Add = add
	op.Rel = -1
	rel := e.M.relOf(setOf(add))
	useBuilder := op.Variant == "Builder.New" || op.Kind == "newbatch"
	if useBuilder {
		k := c.n(100)
		if rel >= 0 && k < 80 {
			op.Rel = rel
			if c.n(100) < 75 {
				op.HasTgt = true
				op.Target = e.pickTarget(c, nil, true)
			}
		}
	}
	if e.P.TargetsOnly && rel >= 0 && !(op.Rel >= 0 && op.HasTgt && !op.Target.IsZero()) {
		// plans that never produce a relation without a target: the relation component is left out
		var a2 []int
		for _, t := range op.Add {
			if t != rel {
				a2 = append(a2, t)
			}
		}
		op.Add, op.Rel, op.HasTgt, op.Target = a2, -1, false, ecs.Entity{}
	}
	if op.With {
		op.Vals = e.genVals(op.Add)
	}
	if !e.illegalIntent(c) {
		if op.With {
			e.cloneVals(c, op, setOf(op.Add))
		}
		return
	}
	rels, plains := e.relTypes()
	switch c.n(6) {
	case 0:
		if len(op.Add) > 0 {
			op.Add = append(op.Add, op.Add[0])
			op.Illegal = "dup-add"
			if c.n(4) == 0 {
				for n := 33 + c.n(40); len(op.Add) < n; {
					op.Add = append(op.Add, op.Add[c.n(len(op.Add))])
				}
			}
		}
	case 1:
		if rel >= 0 && len(rels) > 1 {
			for _, r := range rels {
				if r != rel {
					op.Add = append(op.Add, r)
					op.Illegal = "second-relation"
					break
				}
			}
		}
	case 2:
		if useBuilder && op.Rel >= 0 {
			if h, ok := e.pickDead(c, c.n(2) == 0); ok {
				op.HasTgt, op.Target = true, h
				op.Illegal = "dead-target"
			}
		}
	case 3:
		if useBuilder {
			op.Rel = -1
			op.HasTgt = true
			op.Target = e.pickTarget(c, nil, false)
			op.Illegal = "target-without-relation"
		}
	case 4:
		if useBuilder && len(rels) > 0 {
			// builder relation that is not among the components
			var keep []int
			for _, t := range op.Add {
				if e.M.RelMask&(1<<uint(t)) == 0 {
					keep = append(keep, t)
				}
			}
			op.Add = keep
			op.Rel = rels[0]
			op.HasTgt = true
			op.Target = e.pickTarget(c, nil, false)
			op.Illegal = "relation-missing"
		}
	case 5:
		if useBuilder && len(plains) > 0 {
			op.Rel = plains[c.n(len(plains))]
			if setOf(op.Add)&(1<<uint(op.Rel)) == 0 {
				op.Add = append(op.Add, op.Rel)
			}
			op.HasTgt = true
			op.Target = e.pickTarget(c, nil, false)
			op.Illegal = "not-a-relation"
		}
	}
	if op.With {
		op.Vals = e.genVals(op.Add)
		op.CloneOf = nil
	}
}

// checkNewHandle: C02 ledger checks for a freshly issued handle.
func (e *Engine) checkNewHandle(h ecs.Entity, op *COp) *Violation {
	if h.IsZero() {
		return e.viol("handle", op, "creation returned the zero entity")
	}
	if e.M.Issued[h] {
		return e.viol("handle", op, "handle %v was issued before (since creation / last reset)", h)
	}
	if other, ok := e.M.ByID[h.ID()]; ok {
		return e.viol("handle", op, "new handle %v shares its ID with alive entity %v", h, other.H)
	}
	if h.Generation() > 0 {
		e.St.Probes["recycled-handle-issued"]++
	}
	return nil
}

func (e *Engine) commitNew(op *COp, h ecs.Entity) *Violation {
	if v := e.checkNewHandle(h, op); v != nil {
		return v
	}
	cs := setOf(op.Add)
	var target ecs.Entity
	if op.HasTgt {
		target = op.Target
	}
	me := e.M.addEntity(h, cs, target)
	if op.With {
		for i, t := range op.Add {
			me.Val[t] = append([]byte{}, op.Vals[i]...)
		}
	}
	e.touched[h] = true
	e.logEnt(h)
	if e.listening() {
		e.expEvents = append(e.expEvents, e.M.creationEvent(me))
	}
	if !target.IsZero() {
		e.St.Probes["target-assigned"]++
		if target == h {
			e.St.Probes["self-target"]++
		}
	}
	return nil
}

func (e *Engine) full() bool { return len(e.M.Alive) >= e.P.EntityCap }

func (e *Engine) opNew(c *cursor) *Violation {
	op := &COp{Kind: "new", Rel: -1}
	switch c.n(5) {
	case 0, 1:
		op.Variant = "NewEntity"
	case 2:
		op.Variant, op.With = "NewEntityWith", true
	case 3:
		op.Variant = "Builder.New"
	default:
		op.Variant, op.With = "Builder.New", true
	}
	e.genCreation(c, op)
	if e.full() && op.Illegal == "" && !e.locked() {
		e.St.Skipped++
		return nil
	}
	if op.With && len(op.Add) == 0 && c.n(2) == 0 {
		op.With = false // NewBuilderWith() / NewEntityWith() without components take the ID path
		if op.Variant == "NewEntityWith" {
			op.Variant = "NewEntity"
		}
	} // else: the component-value entry points with an empty (not nil) list of components
	if e.resetCount == 0 && len(e.prelude) < 6 && !e.locked() && e.creationLegal(op) == "" {
		// the first creations of a world: what a program does when it sets a simulation up - and does again after Reset
		cp := *op
		cp.CloneOf = nil
		e.prelude = append(e.prelude, cp)
	}
	return e.runNew(op)
}

// runNew issues a single creation and takes its result over.
func (e *Engine) runNew(op *COp) *Violation {
	res, ok, v := e.issue(op, e.creationLegal(op))
	if v != nil || !ok {
		return v
	}
	if v := e.shadowHandles(op, res); v != nil {
		return v
	}
	return e.commitNew(op, res.Ent)
}

// discoverNew finds the entities that exist in the world but not yet in the model.
func (e *Engine) discoverNew(s *Sys) []ecs.Entity {
	q := s.W.Query(ecs.All())
	var out []ecs.Entity
	for q.Next() {
		h := q.Entity()
		if _, ok := e.M.ByH[h]; !ok {
			out = append(out, h)
		}
	}
	return out
}

func (e *Engine) opNewBatch(c *cursor) *Violation {
	op := &COp{Kind: "newbatch", Variant: "Builder.NewBatch", Rel: -1}
	op.With = c.n(3) == 0
	op.Q = c.n(3) == 0 || e.forceQ
	op.Count = 1 + c.n(8)
	if c.n(10) == 0 {
		op.Count = 1 + c.n(70)
	}
	if e.P.Wide == "big" && c.n(3) == 0 {
		op.Count = 1 + c.n(e.P.EntityCap*3/4)
		if c.n(4) == 0 {
			op.Count = e.P.CapInc*(1+c.n(4)) + c.n(3) - 1 // on and around multiples of the capacity increment
		}
	}
	if e.P.EntityCap >= 17000 {
		op.Count = 1 + c.n(70)
		if len(e.M.Alive) < 600 {
			op.Count = 16300 + c.n(400) // one table of more than 16384 rows, whenever the world is (nearly) empty
		}
	}
	e.genCreation(c, op)
	if op.Illegal == "" && e.illegalIntent(c) {
		op.Count = -c.n(3)
		op.Illegal = "bad-count"
	}
	if op.Q {
		op.Variant = "Builder.NewBatchQ"
	}
	if op.With && len(op.Add) == 0 && c.n(2) == 0 {
		op.With = false
	}
	if (e.full() || len(e.M.Alive)+op.Count > e.P.EntityCap+40) && op.Illegal == "" && !e.locked() {
		e.St.Skipped++
		return nil
	}
	if op.Q && len(e.Open) >= e.P.MaxOpen && !e.locked() {
		op.Q = false
		op.Variant = "Builder.NewBatch"
	}
	why := e.creationLegal(op)
	if why == "" && op.Count < 1 {
		why = "bad-count"
	}
	res, ok, v := e.issue(op, why)
	if v != nil || !ok {
		return v
	}
	created := e.discoverNew(e.S)
	for _, h := range created {
		if h.IsZero() {
			v := e.viol("handle", op, "after NewBatch(%d) the zero entity is listed by Query(All())", op.Count)
			v.Also = append(v.Also, "batch-diff")
			return v
		}
	}
	if len(created) != op.Count {
		// one creation call, another number of new alive entities: the batch differs from the singles (C08) and the
		// alive count from creations minus removals (C02)
		v := e.viol("batch-diff", op, "NewBatch(%d) created %d entities", op.Count, len(created))
		v.Also = append(v.Also, "alive-count")
		return v
	}
	for _, sh := range e.Shadows {
		if sh.Kind == "fresh" || sh.Kind == "load" {
			c2 := e.discoverNewIn(sh.S)
			if !sameEntitySet(created, c2) {
				return &Violation{Class: shadowClass(sh.Kind), Step: e.step, World: sh.S.Name, Op: op,
					Msg: "batch creation issued different handles than in the primary world"}
			}
		}
	}
	before := len(e.expEvents)
	for _, h := range created {
		if v := e.commitNew(op, h); v != nil {
			return v
		}
	}
	e.St.Probes["batch-created"] += len(created)
	if op.Q {
		oq := &OpenQ{Batch: true, ExpSet: map[ecs.Entity]bool{}, Pos: -1, At: map[int]ecs.Entity{}, NewTypes: setOf(op.Add), Rel: -1}
		for _, h := range created {
			oq.ExpSet[h] = true
		}
		if e.listening() {
			oq.Deferred = append(oq.Deferred, e.expEvents[before:]...)
			oq.HasDef = true
			e.expEvents = e.expEvents[:before]
			e.pendingDef++
		}
		e.pushOpen(oq, res)
	}
	return nil
}

func sameEntitySet(a, b []ecs.Entity) bool {
	if len(a) != len(b) {
		return false
	}
	m, _ := toSet(a)
	for _, x := range b {
		if !m[x] {
			return false
		}
	}
	return true
}

// ---------- removal ----------

func (e *Engine) commitRemove(me *MEnt) {
	if e.listening() {
		e.expEvents = append(e.expEvents, e.M.removalEvent(me))
	}
	if e.M.Targets[me.H] {
		e.St.Faults["target-death"]++
		if len(e.M.Children(maxInt(e.M.relOf(me.Cs), 0), me.H)) > 0 || e.hasChildren(me.H) {
			e.St.Probes["target-death-nonempty"]++
		}
	}
	if me.Target == me.H {
		e.St.Probes["self-target-removed"]++
	}
	e.touched[me.H] = true
	e.M.removeEntity(me)
}

func (e *Engine) hasChildren(h ecs.Entity) bool {
	for _, x := range e.M.Alive {
		if x.Target == h && x.H != h {
			return true
		}
	}
	return false
}

func maxInt(a, b int) int {
	if a > b {
		return a
	}
	return b
}

func (e *Engine) opRemove(c *cursor) *Violation {
	op := &COp{Kind: "rm", Rel: -1}
	me := e.pickAlive(c)
	why := ""
	if e.illegalIntent(c) || me == nil {
		h, ok := e.pickDead(c, c.n(2) == 0)
		if !ok {
			if me == nil {
				e.St.Skipped++
				return nil
			}
		} else {
			op.Ent, why, me = h, "dead-entity", nil
			op.Illegal = why
		}
	}
	if me != nil {
		op.Ent = me.H
		// bias: remove relation targets more often than chance
		if (e.P.TargetsOnly || e.P.NoTargetDeath) && e.M.Targets[me.H] {
			e.St.Skipped++ // its children would be left with a relation and no target
			return nil
		}
		if c.n(100) < 35 && len(e.M.Targets) > 0 && !e.P.TargetsOnly && !e.P.NoTargetDeath {
			ts := sortedEntities(e.M.Targets)
			for i := 0; i < len(ts); i++ {
				t := ts[(c.n(1<<20)+i)%len(ts)]
				if x, ok := e.M.ByH[t]; ok {
					me, op.Ent = x, t
					break
				}
			}
		}
	}
	_, ok, v := e.issue(op, why)
	if v != nil {
		if v.Class == "unexpected-panic" && me != nil && (e.M.Targets[me.H] || me.Target == me.H) {
			v.Class = "target-death"
		}
		return v
	}
	if !ok {
		return nil
	}
	e.commitRemove(me)
	return nil
}

// ---------- exchange family ----------

func (e *Engine) commitExchange(op *COp, me *MEnt) {
	hasRel, rel, target := e.exchangeRelArgs(op)
	if hasRel && !target.IsZero() {
		e.St.Probes["target-assigned"]++
	}
	ev := e.M.applyExchange(me, op.Add, op.Rem, rel, hasRel, target)
	if op.With {
		for i, t := range op.Add {
			me.Val[t] = append([]byte{}, op.Vals[i]...)
		}
	}
	e.touched[me.H] = true
	if ev != nil && e.listening() {
		e.expEvents = append(e.expEvents, *ev)
	}
}

// exchangeRelArgs: does this call carry a relation target, per the API used?
func (e *Engine) exchangeRelArgs(op *COp) (hasRel bool, rel int, target ecs.Entity) {
	switch op.Variant {
	case "Relations.Exchange", "Relations.ExchangeBatch":
		return true, op.Rel, op.Target
	case "Builder.Add":
		if op.HasTgt {
			return true, op.Rel, op.Target
		}
	}
	return false, -1, ecs.Entity{}
}

func (e *Engine) exchangeWhy(op *COp, me *MEnt) string {
	if me == nil {
		return "dead-entity"
	}
	if op.Variant == "Assign" && len(op.Add) == 0 {
		return "assign-empty"
	}
	if op.Variant == "Builder.Add" && op.HasTgt && op.Rel < 0 {
		return "target-without-relation"
	}
	hasRel, rel, target := e.exchangeRelArgs(op)
	return e.M.exchangeLegal(me, op.Add, op.Rem, rel, hasRel, target)
}

func (e *Engine) opExchange(c *cursor) *Violation {
	me := e.pickAlive(c)
	op := &COp{Kind: "xchg", Rel: -1}
	vk := c.n(100)
	if me == nil {
		e.St.Skipped++
		return nil
	}
	op.Ent = me.H
	reg := e.regTypes()
	var absent, present []int
	for _, t := range reg {
		if me.Has(t) {
			present = append(present, t)
		} else {
			absent = append(absent, t)
		}
	}
	add := subset(c, absent, 3)
	rem := subset(c, present, 2)
	add = e.limitRelations(me.Cs&^setOf(rem), add)
	switch {
	case vk < 22:
		op.Variant, op.Add = "Add", add
	case vk < 40:
		op.Variant, op.Rem = "Remove", rem
	case vk < 58:
		op.Variant, op.Add, op.Rem = "Exchange", add, rem
	case vk < 72:
		op.Variant, op.Add, op.Rem = "Relations.Exchange", add, rem
	case vk < 82:
		op.Variant, op.Add, op.With = "Assign", add, true
	case vk < 92:
		op.Variant, op.Add = "Builder.Add", add
	default:
		op.Variant, op.Add, op.With = "Builder.Add", add, true
	}
	resCs := (me.Cs &^ setOf(op.Rem)) | setOf(op.Add)
	resRel := e.M.relOf(resCs)
	switch op.Variant {
	case "Relations.Exchange":
		if resRel < 0 || (len(op.Add) == 0 && len(op.Rem) == 0) {
			// cannot be legal: fall back to a plain exchange
			op.Variant = "Exchange"
		} else {
			op.Rel = resRel
			op.HasTgt = true
			op.Target = e.pickTarget(c, me, true)
		}
	case "Builder.Add":
		if resRel >= 0 && setOf(op.Add)&(1<<uint(resRel)) != 0 && c.n(100) < 75 {
			op.Rel = resRel
			if c.n(100) < 75 {
				op.HasTgt = true
				op.Target = e.pickTarget(c, me, true)
			}
		} else if resRel >= 0 && len(op.Add) > 0 && c.n(100) < 40 {
			// retarget an existing relation while adding something else
			op.Rel = resRel
			op.HasTgt = true
			op.Target = e.pickTarget(c, me, true)
		} else if c.n(100) < 50 {
			// builder configured WithRelation but used without a target: the relation setting must be ignored,
			// in particular an existing target stays as it is
			rels, _ := e.relTypes()
			if len(rels) > 0 {
				op.Rel = rels[c.n(len(rels))]
				e.St.Probes["builder-with-relation-no-target"]++
			}
		}
	}
	if e.P.TargetsOnly && resRel >= 0 {
		newTgt := me.Target
		if setOf(op.Add)&(1<<uint(resRel)) != 0 {
			newTgt = ecs.Entity{}
		}
		if op.HasTgt && op.Rel == resRel {
			newTgt = op.Target
		}
		if newTgt.IsZero() {
			e.St.Skipped++
			return nil
		}
	}
	if op.Variant == "Assign" && len(op.Add) == 0 {
		op.Variant, op.With = "Add", false
	}
	if op.With && len(op.Add) == 0 {
		op.With = false
	}
	if e.illegalIntent(c) {
		e.breakExchange(c, op, me, present, absent)
	}
	if op.With {
		op.Vals = e.genVals(op.Add)
		if me != nil && op.Illegal == "" {
			e.cloneVals(c, op, (me.Cs|setOf(op.Add))&^setOf(op.Rem))
		}
	}
	var tgt *MEnt = me
	if op.Illegal == "dead-entity" {
		tgt = nil
	}
	_, ok, v := e.issue(op, e.exchangeWhy(op, tgt))
	if v != nil || !ok {
		return v
	}
	e.commitExchange(op, me)
	return nil
}

// breakExchange turns a legal exchange into one of the documented illegal classes.
func (e *Engine) breakExchange(c *cursor, op *COp, me *MEnt, present, absent []int) {
	rels, plains := e.relTypes()
	_ = plains
	switch c.n(12) {
	case 10, 11:
		// a relation argument that the resulting entity does not carry / that is not a relation type
		if op.HasTgt && op.Rel >= 0 && (op.Variant == "Relations.Exchange" || op.Variant == "Builder.Add") {
			res := (me.Cs &^ setOf(op.Rem)) | setOf(op.Add)
			var missing, plainIn []int
			for _, t := range e.regTypes() {
				if res&(1<<uint(t)) == 0 {
					missing = append(missing, t)
				} else if e.M.RelMask&(1<<uint(t)) == 0 {
					plainIn = append(plainIn, t)
				}
			}
			k := c.n(1 << 16)
			if len(missing) > 0 && (k%2 == 0 || len(plainIn) == 0) {
				op.Rel = missing[(k/2)%len(missing)]
				op.Illegal = "relation-missing"
			} else if len(plainIn) > 0 {
				op.Rel = plainIn[(k/2)%len(plainIn)]
				op.Illegal = "not-a-relation"
			}
		}
	case 0:
		if h, ok := e.pickDead(c, c.n(2) == 0); ok {
			op.Ent = h
			op.Illegal = "dead-entity"
		}
	case 1:
		if len(present) > 0 && op.Variant != "Remove" {
			op.Add = append(op.Add, present[c.n(len(present))])
			op.Illegal = "add-present"
		}
	case 2:
		if len(absent) > 0 && (op.Variant == "Remove" || op.Variant == "Exchange" || op.Variant == "Relations.Exchange") {
			op.Rem = append(op.Rem, absent[c.n(len(absent))])
			op.Illegal = "remove-absent"
		}
	case 3:
		if len(op.Add) > 0 {
			op.Add = append(op.Add, op.Add[c.n(len(op.Add))])
			op.Illegal = "dup-add"
			if c.n(4) == 0 { // a long list (more IDs than a machine word has bits) that keeps repeating itself
				for n := 33 + c.n(40); len(op.Add) < n; {
					op.Add = append(op.Add, op.Add[c.n(len(op.Add))])
				}
			}
		}
	case 4:
		if len(op.Rem) > 0 {
			op.Rem = append(op.Rem, op.Rem[c.n(len(op.Rem))])
			op.Illegal = "dup-rem"
			if c.n(4) == 0 {
				for n := 33 + c.n(40); len(op.Rem) < n; {
					op.Rem = append(op.Rem, op.Rem[c.n(len(op.Rem))])
				}
			}
		}
	case 5:
		if len(present) > 0 && (op.Variant == "Exchange" || op.Variant == "Relations.Exchange") {
			t := present[c.n(len(present))]
			op.Add = append(op.Add, t)
			if setOf(op.Rem)&(1<<uint(t)) == 0 {
				op.Rem = append(op.Rem, t)
			}
			op.Illegal = "add-and-remove-same"
		}
	case 6:
		cur := e.M.relOf(me.Cs)
		if cur >= 0 && setOf(op.Rem)&(1<<uint(cur)) == 0 && op.Variant != "Remove" {
			for _, r := range rels {
				if r != cur && setOf(op.Add)&(1<<uint(r)) == 0 {
					op.Add = append(op.Add, r)
					op.Illegal = "second-relation"
					break
				}
			}
		}
	case 7:
		if op.HasTgt {
			if h, ok := e.pickDead(c, c.n(2) == 0); ok {
				op.Target = h
				op.Illegal = "dead-target"
			}
		}
	case 8:
		if len(rels) > 0 {
			op.Variant, op.Add, op.Rem, op.With = "Relations.Exchange", nil, nil, false
			op.Rel = rels[c.n(len(rels))]
			op.HasTgt, op.Target = true, e.pickTarget(c, me, false)
			op.Illegal = "exchange-no-effect-with-relation"
		}
	case 9:
		if op.Variant == "Assign" || op.Variant == "Add" {
			op.Variant, op.Add, op.With = "Assign", nil, true
			op.Illegal = "assign-empty"
		} else if op.Variant == "Builder.Add" {
			op.Rel = -1
			op.HasTgt, op.Target = true, e.pickTarget(c, me, false)
			op.Illegal = "target-without-relation"
		}
	}
}

// ---------- value writes ----------

func (e *Engine) opSet(c *cursor) *Violation {
	me := e.pickAlive(c)
	if me == nil {
		e.St.Skipped++
		return nil
	}
	op := &COp{Kind: "set", Ent: me.H, Rel: -1}
	present := listOf(me.Cs)
	why := ""
	vk := c.n(3)
	if e.locked() && vk == 0 {
		vk = 1 // World.Set is documented as refusing a locked world; pointer writes are the legal path there
	}
	op.Variant = []string{"Set", "GetWrite", "GetUncheckedWrite"}[vk]
	shape := c.n(100)
	ill := e.illegalIntent(c)
	if len(present) == 0 || (ill && c.n(2) == 0) {
		// component the entity does not have
		var absent []int
		for _, t := range e.regTypes() {
			if !me.Has(t) {
				absent = append(absent, t)
			}
		}
		if len(absent) == 0 {
			e.St.Skipped++
			return nil
		}
		op.Type = absent[c.n(len(absent))]
		if op.Variant == "Set" {
			why = "set-absent"
		}
	} else {
		op.Type = present[c.n(len(present))]
		if ill && op.Variant != "GetUncheckedWrite" {
			if h, ok := e.pickDead(c, c.n(2) == 0); ok {
				op.Ent, why = h, "dead-entity"
			}
		}
	}
	op.Illegal = why
	op.Val = e.genVal(op.Type)
	if op.Variant == "Set" && e.P.Types[op.Type].IsPtr() && shape < 60 {
		// the value is a composite literal at the call site (may legally stay on the caller's stack)
		op.Variant = "SetLiteral"
		if shape < 20 {
			op.Variant = "MapSetLiteral"
		}
		e.St.Probes["literal-call-site"]++
	}
	res, ok, v := e.issue(op, why)
	if v != nil || !ok {
		return v
	}
	if me.Has(op.Type) {
		if res.Ptr == nil {
			return e.viol("compset", op, "%s returned nil for a component the entity has", op.Variant)
		}
		me.Val[op.Type] = append([]byte{}, op.Val...)
		e.St.Probes["value-written"]++
	} else if res.Ptr != nil {
		return e.viol("compset", op, "%s returned non-nil for an absent component", op.Variant)
	}
	e.touched[me.H] = true
	return nil
}

// ---------- relation target ----------

func (e *Engine) commitSetRel(op *COp, me *MEnt) {
	if me.Target == op.Target {
		return
	}
	old := me.Target
	me.Target = op.Target
	if !op.Target.IsZero() {
		e.M.Targets[op.Target] = true
		e.St.Probes["target-assigned"]++
		if op.Target == me.H {
			e.St.Probes["self-target"]++
		}
	}
	e.touched[me.H] = true
	if e.listening() {
		e.expEvents = append(e.expEvents, MEv{Ent: me.H, OldRel: op.Rel, NewRel: op.Rel, OldTarget: old, Types: evTargChg})
	}
}

func (e *Engine) setRelWhy(op *COp, me *MEnt) string {
	if me == nil {
		return "dead-entity"
	}
	if !e.M.TargetOK(op.Target) {
		return "dead-target"
	}
	if !me.Has(op.Rel) {
		return "relation-missing"
	}
	if e.M.RelMask&(1<<uint(op.Rel)) == 0 {
		return "not-a-relation"
	}
	return ""
}

func (e *Engine) opSetRel(c *cursor) *Violation {
	// prefer entities that carry a relation
	var cands []*MEnt
	for _, x := range e.M.Alive {
		if e.M.relOf(x.Cs) >= 0 {
			cands = append(cands, x)
		}
	}
	k := c.n(1 << 30)
	var me *MEnt
	if len(cands) > 0 {
		me = cands[k%len(cands)]
	}
	ill := e.illegalIntent(c)
	op := &COp{Kind: "setrel", Variant: "Relations.Set", Rel: -1}
	if me == nil {
		if !ill || len(e.M.Alive) == 0 {
			e.St.Skipped++
			return nil
		}
		me = e.M.Alive[k%len(e.M.Alive)]
	}
	op.Ent = me.H
	op.Rel = e.M.relOf(me.Cs)
	op.Target = e.pickTarget(c, me, true)
	tgt := me
	if ill || op.Rel < 0 {
		rels, plains := e.relTypes()
		switch c.n(4) {
		case 0:
			if h, ok := e.pickDead(c, c.n(2) == 0); ok {
				op.Ent, tgt = h, nil
				op.Illegal = "dead-entity"
			}
		case 1:
			if h, ok := e.pickDead(c, c.n(2) == 0); ok {
				op.Target = h
				op.Illegal = "dead-target"
			}
		case 2:
			for _, r := range rels {
				if !me.Has(r) {
					op.Rel = r
					op.Illegal = "relation-missing"
					break
				}
			}
		case 3:
			for _, t := range plains {
				if me.Has(t) {
					op.Rel = t
					op.Illegal = "not-a-relation"
					break
				}
			}
		}
		if op.Rel < 0 {
			if len(rels) == 0 {
				e.St.Skipped++
				return nil
			}
			op.Rel = rels[0]
		}
	}
	if tgt != nil && op.Illegal == "" && op.Target == me.Target {
		e.St.Probes["setrel-same-target"]++
	}
	_, ok, v := e.issue(op, e.setRelWhy(op, tgt))
	if v != nil || !ok {
		return v
	}
	e.commitSetRel(op, me)
	return nil
}

// ---------- reads ----------

func (e *Engine) opRead(c *cursor) *Violation {
	me := e.pickAlive(c)
	op := &COp{Kind: "read", Rel: -1}
	op.Variant = []string{"Get", "Has", "Mask", "Ids", "Relations.Get", "Alive"}[c.n(6)]
	why := ""
	reg := e.regTypes()
	if len(reg) == 0 {
		e.St.Skipped++
		return nil
	}
	op.Type = reg[c.n(len(reg))]
	ill := e.illegalIntent(c)
	if me == nil || (ill && c.n(3) > 0) {
		h, ok := e.pickDead(c, c.n(2) == 0)
		if !ok {
			e.St.Skipped++
			return nil
		}
		op.Ent = h
		me = nil
		if op.Variant != "Alive" {
			why = "dead-entity"
		}
		// the unchecked accessors: documented to panic for a removed entity, "but not for a recycled" one - so only
		// handles whose ID is not in use again are offered to them
		if _, inUse := e.M.ByID[h.ID()]; !inUse && c.n(3) == 0 {
			switch op.Variant {
			case "Has":
				op.Variant = "HasUnchecked"
			case "Get":
				op.Variant = "GetUnchecked"
			}
		} else {
			c.n(1)
		}
	} else {
		op.Ent = me.H
	}
	if op.Variant == "Relations.Get" {
		op.Rel = op.Type
		if me != nil {
			r := e.M.relOf(me.Cs)
			if r >= 0 && !ill {
				op.Rel = r
			}
			if !me.Has(op.Rel) {
				why = "relation-missing"
			} else if e.M.RelMask&(1<<uint(op.Rel)) == 0 {
				why = "not-a-relation"
			}
		}
	}
	op.Illegal = why
	res, ok, v := e.issue(op, why)
	if v != nil || !ok {
		return v
	}
	switch op.Variant {
	case "Alive":
		if res.Bool != (me != nil) {
			return e.viol("handle", op, "Alive(%v)=%v, model %v", op.Ent, res.Bool, me != nil)
		}
	case "Has":
		if res.Bool != me.Has(op.Type) {
			return e.viol("compset", op, "Has=%v, model %v", res.Bool, me.Has(op.Type))
		}
	case "Relations.Get":
		if res.Ent != me.Target {
			return e.viol("target", op, "Relations.Get=%v, model %v", res.Ent, me.Target)
		}
	}
	return nil
}

// ---------- reset ----------

func (e *Engine) opReset(c *cursor) *Violation {
	op := &COp{Kind: "reset", Variant: "Reset", Rel: -1}
	if !e.locked() {
		if v := e.checkPendingDump(); v != nil {
			return v
		}
	}
	_, ok, v := e.issue(op, "")
	if v != nil || !ok {
		return v
	}
	e.St.Faults["reset"]++
	e.resetCount++
	if len(e.prelude) > 0 && c.n(2) == 1 {
		// the same set-up calls as at the start, with the same (long-lived) builders and the same handle values
		e.replayQ = append([]COp{}, e.prelude...)
	}
	e.M.clearEntities()
	for i := range e.M.Res {
		e.M.Res[i] = nil
		e.S.ResVals[i] = nil
	}
	e.replica = map[ecs.Entity]*MEnt{}
	e.weak.resetAll()
	for k := range e.touched {
		delete(e.touched, k)
	}
	return e.afterReset()
}

// ---------- resources ----------

func (e *Engine) opRes(c *cursor) *Violation {
	if len(e.S.ResIDs) == 0 {
		e.St.Skipped++
		return nil
	}
	if len(e.S.ResIDs) > 32 && c.n(12) == 0 {
		// fill: add every absent resource, so that all slots are occupied at once
		for i := range e.S.ResIDs {
			if e.M.Res[i] == nil {
				e.valSeq++
				fop := &COp{Kind: "res", Variant: "Add", Res: i, K: int(e.valSeq), Rel: -1}
				res, ok, v := e.issue(fop, "")
				if v != nil {
					if v.Class == "unexpected-panic" {
						v.Class = "resource"
					}
					return v
				}
				if ok {
					e.M.Res[i] = res.Any
					e.S.ResVals[i] = res.Any
					for _, sh := range e.Shadows {
						if sh.Kind == "fresh" {
							sh.S.ResVals[i] = e.lastShadow[sh].Any
						}
					}
				}
			}
		}
		e.St.Probes["all-resource-slots-occupied"]++
		return nil
	} else {
		c.n(1)
	}
	op := &COp{Kind: "res", Rel: -1}
	op.Res = c.n(len(e.S.ResIDs))
	present := e.M.Res[op.Res] != nil
	ill := e.illegalIntent(c)
	why := ""
	switch c.n(4) {
	case 0, 1:
		// toggle (or the illegal opposite)
		if present != ill {
			op.Variant = "Remove"
			if !present {
				why = "resource-absent"
			}
		} else {
			op.Variant = "Add"
			if present {
				why = "resource-present"
			}
		}
	case 2:
		op.Variant = "Get"
	default:
		op.Variant = "Has"
	}
	op.Illegal = why
	e.valSeq++
	op.K = int(e.valSeq)
	if op.Res < nStaticRes {
		op.K2 = c.n(3) // 0: ID-based, 1: generic.Resource, 2: AddResource/GetResource
		if op.K2 > 0 {
			e.St.Probes["resource-generic-path"]++
		}
	}
	if !e.S.ResReg[op.Res] {
		e.St.Probes["resource-type-registered-late"]++
		if e.locked() {
			e.St.Probes["resource-type-registered-while-locked"]++
		}
	}
	res, ok, v := e.issue(op, why)
	if v != nil {
		if v.Class == "unexpected-panic" {
			v.Class = "resource"
		}
		if v.Class == "no-panic" {
			v.Class = "resource-no-panic"
		}
		return v
	}
	if !ok {
		return nil
	}
	switch op.Variant {
	case "Add":
		e.M.Res[op.Res] = res.Any
		e.S.ResVals[op.Res] = res.Any
		for _, sh := range e.Shadows {
			if sh.Kind == "fresh" {
				sh.S.ResVals[op.Res] = e.lastShadow[sh].Any
			}
		}
	case "Remove":
		e.M.Res[op.Res] = nil
		e.S.ResVals[op.Res] = nil
	case "Get":
		if present && nilPtrToNil(res.Any) != nilPtrToNil(e.S.ResVals[op.Res]) {
			return e.viol("resource", op, "Resources.Get returned a different pointer")
		}
		if !present && res.Any != nil {
			return e.viol("resource", op, "Resources.Get of an absent resource is not nil")
		}
	case "Has":
		if res.Bool != present {
			return e.viol("resource", op, "Resources.Has=%v, model %v", res.Bool, present)
		}
	}
	e.St.Probes["resource-op"]++
	return nil
}

// nilPtrToNil maps a typed nil pointer to the nil interface (the generic Get paths return *T, the ID-based one the
// stored interface: both spell "a nil pointer was stored").
func nilPtrToNil(x interface{}) interface{} {
	if x == nil {
		return nil
	}
	if v := reflect.ValueOf(x); v.Kind() == reflect.Ptr && v.IsNil() {
		return nil
	}
	return x
}
