package sim

import (
	"fmt"
	"reflect"
	"unsafe"

	"github.com/mlange-42/arche/ecs"
)

// TypeSpec describes one component type of a plan. Types are built with reflect so that a plan can place
// any number of distinct types of any shape at any ID without code generation.
type TypeSpec struct {
	Kind    string `json:"kind"`              // bytes | aligned | padded | rel | rellater | array | ptr | ptrrel
	Size    int    `json:"size"`              // payload size in bytes (bytes/rel/array), element count (aligned)
	Align   int    `json:"align,omitempty"`   // element size for aligned: 2,4,8
	Fillers int    `json:"fillers,omitempty"` // filler registrations placed before this type (pushes its ID up)
	Late    bool   `json:"late,omitempty"`    // registered by a late-registration step instead of at setup
	UID     int    `json:"uid,omitempty"`     // identity of the Go type: equal UID+shape in two plans gives the same reflect.Type (0 = position)
}

var relationType = reflect.TypeOf(ecs.Relation{})

// Relation is a look-alike: a type that is merely NAMED Relation. Embedding it first must not make a relation.
type Relation struct{}

var lookalikeType = reflect.TypeOf(Relation{})

// Canary is the heap object referenced by pointer-carrying components.
type Canary struct {
	ID  uint64
	Pay [3]uint64
}

// Pointer-carrying static component types (static so that call-site shapes can be written in plain Go).
type PtrA struct {
	P   *Canary
	S   []uint64
	Str string
	M   map[uint64]uint64
}
type PtrB struct {
	Pad uint32
	P   *Canary
	S   []uint64
}
type PtrC struct {
	Str string
	P   *Canary
}
type PtrRel struct {
	ecs.Relation
	P *Canary
}

// PtrD: pointers inside an array of structs, behind an interface and in a closure.
type PtrD struct {
	A [2]struct {
		N uint64
		P *Canary
	}
	I interface{}
	F func() uint64
}

// PtrE: the only reference is an unsafe.Pointer field.
type PtrE struct {
	N uint64
	U unsafe.Pointer
}

var ptrTypes = []reflect.Type{reflect.TypeOf(PtrA{}), reflect.TypeOf(PtrB{}), reflect.TypeOf(PtrC{}), reflect.TypeOf(PtrD{}), reflect.TypeOf(PtrE{})}
var ptrRelType = reflect.TypeOf(PtrRel{})

func (t TypeSpec) IsPtr() bool { return t.Kind == "ptr" || t.Kind == "ptrrel" }

// IsRelation says whether the model treats the type as a relation (ecs.Relation embedded as first field).
func (t TypeSpec) IsRelation() bool { return t.Kind == "rel" || t.Kind == "ptrrel" }

// BuildType constructs the reflect.Type for spec number k of a plan. Distinct k give distinct types.
func BuildType(t TypeSpec, k int, ptrSeq *int) reflect.Type {
	name := fmt.Sprintf("F%d", k)
	if t.UID > 0 {
		name = fmt.Sprintf("U%d", t.UID)
	}
	byteT := reflect.TypeOf(uint8(0))
	switch t.Kind {
	case "bytes":
		return reflect.StructOf([]reflect.StructField{{Name: name, Type: reflect.ArrayOf(t.Size, byteT)}})
	case "aligned":
		var el reflect.Type
		switch t.Align {
		case 2:
			el = reflect.TypeOf(uint16(0))
		case 4:
			el = reflect.TypeOf(uint32(0))
		default:
			el = reflect.TypeOf(uint64(0))
		}
		return reflect.StructOf([]reflect.StructField{{Name: name, Type: reflect.ArrayOf(t.Size, el)}})
	case "padded":
		return reflect.StructOf([]reflect.StructField{
			{Name: name + "A", Type: byteT},
			{Name: name + "B", Type: reflect.TypeOf(uint64(0))},
			{Name: name + "C", Type: reflect.ArrayOf(t.Size, byteT)},
		})
	case "rel":
		return reflect.StructOf([]reflect.StructField{
			{Name: "Relation", Type: relationType, Anonymous: true},
			{Name: name, Type: reflect.ArrayOf(t.Size, byteT)},
		})
	case "rellater":
		return reflect.StructOf([]reflect.StructField{
			{Name: name, Type: reflect.ArrayOf(t.Size, byteT)},
			{Name: "Relation", Type: relationType, Anonymous: true},
		})
	case "relnamed":
		// first field is an embedded type named Relation that is not ecs.Relation: not a relation
		return reflect.StructOf([]reflect.StructField{
			{Name: "Relation", Type: lookalikeType, Anonymous: true},
			{Name: name, Type: reflect.ArrayOf(t.Size, byteT)},
		})
	case "relptr":
		// first field is an embedded *ecs.Relation (a pointer, kept nil): not a relation
		return reflect.StructOf([]reflect.StructField{
			{Name: "Relation", Type: reflect.PtrTo(relationType), Anonymous: true},
			{Name: name, Type: reflect.ArrayOf(t.Size, byteT)},
		})
	case "array":
		// non-struct kind; distinctness comes from the length, which the planner keeps unique
		return reflect.ArrayOf(t.Size, byteT)
	case "ptr":
		tp := ptrTypes[*ptrSeq%len(ptrTypes)]
		*ptrSeq++
		return tp
	case "ptrrel":
		return ptrRelType
	}
	panic("unknown type kind " + t.Kind)
}

// Static filler types of unusual kinds, registered through the generic ComponentID[T] (never used by entities).
type (
	FIface      interface{ Area() float64 }
	FEmptyIface interface{}
	FFunc       func(int) int
	FMap        map[string]int
	FPtr        *Canary
	FChan       chan int
	FSlice      []byte
	FStr        string
	FInt8       int8
	FEmpty      struct{}
	FArr        [3]uint16
	FBool       bool
)

type staticFiller struct {
	tp  reflect.Type
	reg func(w *ecs.World) ecs.ID
}

func sf[T any]() staticFiller {
	return staticFiller{reflect.TypeOf((*T)(nil)).Elem(), func(w *ecs.World) ecs.ID { return ecs.ComponentID[T](w) }}
}

// Two distinct types with the same name (declared in different function scopes): they print alike, and are different
// types all the same.
func sameNameA() staticFiller {
	type Settings struct{ V uint64 }
	return sf[Settings]()
}

func sameNameB() staticFiller {
	type Settings struct{ V uint64 }
	return sf[Settings]()
}

var staticFillers = []staticFiller{sameNameA(), sameNameB(), sf[FIface](), sf[FEmptyIface](), sf[FFunc](), sf[FMap](), sf[FPtr](), sf[FChan](),
	sf[FSlice](), sf[FStr](), sf[FInt8](), sf[FEmpty](), sf[FArr](), sf[FBool]()}

func staticFillerOf(n int) (staticFiller, bool) {
	if n >= 0 && n%5 == 2 && n/5 < len(staticFillers) {
		return staticFillers[n/5], true
	}
	return staticFiller{}, false
}

// registerFiller registers the n-th filler type: the static ones through ComponentID[T], the others through TypeID.
func registerFiller(w *ecs.World, n int) ecs.ID {
	if f, ok := staticFillerOf(n); ok {
		return f.reg(w)
	}
	return ecs.TypeID(w, FillerType(n))
}

// FillerType returns the n-th filler type (zero-sized or small, never used by entities).
func FillerType(n int) reflect.Type {
	if f, ok := staticFillerOf(n); ok {
		return f.tp
	}
	name := fmt.Sprintf("Z%d", n)
	if n%3 == 0 {
		return reflect.StructOf([]reflect.StructField{{Name: name, Type: reflect.TypeOf(uint16(0))}})
	}
	return reflect.StructOf([]reflect.StructField{{Name: name, Type: reflect.TypeOf(struct{}{})}})
}

// ResType returns the n-th dynamic resource type.
func ResType(n int) reflect.Type {
	switch n {
	case 7:
		return sameNameA().tp
	case 8:
		return sameNameB().tp
	}
	if n%11 == 5 && n > 4 {
		// a resource type that is itself a pointer type, next to its element type (index n-1)
		return reflect.PtrTo(ResType(n - 1))
	}
	return reflect.StructOf([]reflect.StructField{{Name: fmt.Sprintf("R%d", n), Type: reflect.TypeOf(uint64(0))}})
}

// readBytes copies the n bytes behind p.
func readBytes(p unsafe.Pointer, n int) []byte {
	if n == 0 {
		return []byte{}
	}
	out := make([]byte, n)
	copy(out, unsafe.Slice((*byte)(p), n))
	return out
}

func writeBytes(p unsafe.Pointer, b []byte) {
	if len(b) == 0 {
		return
	}
	copy(unsafe.Slice((*byte)(p), len(b)), b)
}

// newValue allocates a value of type tp holding the given raw bytes and returns it as pointer-in-interface,
// the form expected by World.Set / Component.Comp.
func newValue(tp reflect.Type, b []byte) interface{} {
	v := reflect.New(tp)
	writeBytes(v.UnsafePointer(), b)
	return v.Interface()
}

// canaryPay derives the payload of canary c.
func canaryPay(c uint64) [3]uint64 {
	return [3]uint64{c * 0x9E3779B97F4A7C15, c ^ 0xABCDEF0123456789, c + 77}
}

func newCanary(c uint64) *Canary { return &Canary{ID: c, Pay: canaryPay(c)} }

func canaryStr(c uint64) string { return fmt.Sprintf("canary-%d-%x", c, c*2654435761) }

func canaryOK(p *Canary, c uint64) bool {
	return p != nil && p.ID == c && p.Pay == canaryPay(c)
}
