#!/bin/bash
# Determinism self-test of the harness: for every main-engine profile, the same seeds are executed in fresh processes
# under GOMAXPROCS 1/4/16 (twice each inside the process) and the observable digests are diffed.
# Usage: ./selftest_determinism.sh [runs-per-profile]   (exit 0 = all equal)
runs=${1:-40}
/verif/build.sh >/dev/null 2>&1 || exit 2
tmp=$(mktemp -d); trap 'rm -rf $tmp' EXIT
bad=0
for prop in C01 C02 C03 C05 C06 C07 C08 C09 C10 C11 C12 C13 C14 C15 C16 C17 C19 C20; do
  for cfg in "1 100 0" "4 20 0" "16 off 0" "2 100 0"; do
    set -- $cfg
    GOMAXPROCS=$1 GOGC=$2 /verif/bin/archesim special digests -prop $prop -seed 7 -runs $runs -gcvar $3 \
      | jq -c '[.k,.d,.d2,.class]' > $tmp/$prop.$1 &
  done
  wait
  for f in $tmp/$prop.4 $tmp/$prop.16 $tmp/$prop.2; do
    if ! cmp -s $tmp/$prop.1 $f; then echo "DIFF in $prop: $(diff $tmp/$prop.1 $f | head -3)"; bad=1; fi
  done
  # in-process repetition
  if [ "$(jq -c 'select(.[1]!=.[2])' $tmp/$prop.1 | wc -l)" != 0 ]; then echo "in-process DIFF in $prop"; bad=1; fi
  echo "$prop: $(wc -l < $tmp/$prop.1) seeds x 4 processes x 2 executions equal=$([ $bad = 0 ] && echo yes || echo NO)"
done
exit $bad
